(* Tx/Proofs.v — lemmas and proofs about coq/Tx/{Select,Fee,Build}.v (property C02). *)
From Coq Require Import List ZArith Bool Arith Lia Permutation.
Import ListNotations.
Open Scope Z_scope.
Require Import MW.Gen.Consts MW.Tx.Select MW.Tx.Fee MW.Tx.Build.

(* ================================================================== part 1: sub-multisets *)

Section Sub.
Variable A : Type.
Variable amt : A -> Z.

(* l1 is a sub-multiset of l2 *)
Definition subperm (l1 l2 : list A) : Prop := exists rest, Permutation (l1 ++ rest) l2.

Lemma subperm_refl l : subperm l l.
Proof. exists []. rewrite app_nil_r. apply Permutation_refl. Qed.

Lemma subperm_nil l : subperm [] l.
Proof. exists l. apply Permutation_refl. Qed.

Lemma subperm_perm l1 l2 : Permutation l1 l2 -> subperm l1 l2.
Proof. intros H. exists []. now rewrite app_nil_r. Qed.

Lemma subperm_trans l1 l2 l3 : subperm l1 l2 -> subperm l2 l3 -> subperm l1 l3.
Proof.
  intros [r1 H1] [r2 H2]. exists (r1 ++ r2).
  rewrite app_assoc. eapply Permutation_trans; [|exact H2].
  apply Permutation_app_tail. exact H1.
Qed.

Lemma subperm_app_r l1 l2 x : subperm l1 l2 -> subperm l1 (l2 ++ x).
Proof.
  intros [r H]. exists (r ++ x). rewrite app_assoc. now apply Permutation_app_tail.
Qed.

Lemma subperm_app_l l1 l2 x : subperm l1 l2 -> subperm l1 (x ++ l2).
Proof.
  intros [r H]. exists (r ++ x). rewrite app_assoc.
  eapply Permutation_trans; [apply Permutation_app_comm|]. now apply Permutation_app_head.
Qed.

Lemma subperm_snoc l1 l2 x : subperm l1 l2 -> subperm (l1 ++ [x]) (l2 ++ [x]).
Proof.
  intros [r H]. exists r.
  eapply Permutation_trans with ((l1 ++ r) ++ [x]).
  - rewrite <- !app_assoc. apply Permutation_app_head. apply Permutation_app_comm.
  - now apply Permutation_app_tail.
Qed.

Lemma subperm_cons l1 l2 x : subperm l1 l2 -> subperm (x :: l1) (x :: l2).
Proof. intros [r H]. exists r. simpl. now constructor. Qed.

Lemma subperm_cons_r l1 l2 x : subperm l1 l2 -> subperm l1 (x :: l2).
Proof. intros H. apply (subperm_app_l _ _ [x]) in H. exact H. Qed.

Lemma subperm_app_inv_l l1 l1' l2 : subperm (l1 ++ l1') l2 -> subperm l1 l2.
Proof. intros [r H]. exists (l1' ++ r). now rewrite app_assoc. Qed.

Lemma subperm_incl l1 l2 : subperm l1 l2 -> incl l1 l2.
Proof.
  intros [r H] x Hx. eapply Permutation_in; [exact H|]. apply in_or_app. now left.
Qed.

Lemma subperm_length l1 l2 : subperm l1 l2 -> (length l1 <= length l2)%nat.
Proof.
  intros [r H]. apply Permutation_length in H. rewrite app_length in H. lia.
Qed.

Lemma subperm_map {B} (f : A -> B) l1 l2 : subperm l1 l2 -> exists r, Permutation (map f l1 ++ r) (map f l2).
Proof.
  intros [r H]. exists (map f r). rewrite <- map_app. now apply Permutation_map.
Qed.

Lemma NoDup_app_l {B} (l1 l2 : list B) : NoDup (l1 ++ l2) -> NoDup l1.
Proof.
  induction l1 as [|x l IH]; simpl; intros H; [constructor|].
  inversion H as [|y l' Hn Hd]; subst. constructor.
  - intros Hx. apply Hn. apply in_or_app. now left.
  - now apply IH.
Qed.

Lemma subperm_NoDup_map {B} (f : A -> B) l1 l2 :
  subperm l1 l2 -> NoDup (map f l2) -> NoDup (map f l1).
Proof.
  intros Hs Hn. destruct (subperm_map f _ _ Hs) as [r Hr].
  apply Permutation_sym in Hr. apply (Permutation_NoDup Hr) in Hn.
  now apply NoDup_app_l in Hn.
Qed.

Lemma sum_amt_app l1 l2 : sum_amt amt (l1 ++ l2) = sum_amt amt l1 + sum_amt amt l2.
Proof. induction l1 as [|x l IH]; simpl; [reflexivity|]. rewrite IH. lia. Qed.

Lemma sum_amt_perm l1 l2 : Permutation l1 l2 -> sum_amt amt l1 = sum_amt amt l2.
Proof. induction 1; simpl; lia. Qed.

Lemma sum_amt_nonneg l : Forall (fun x => 0 <= amt x) l -> 0 <= sum_amt amt l.
Proof. induction 1; simpl; lia. Qed.

Lemma Forall_perm (P : A -> Prop) l1 l2 : Permutation l1 l2 -> Forall P l1 -> Forall P l2.
Proof.
  intros Hp Hf. rewrite Forall_forall in *. intros x Hx. apply Hf.
  eapply Permutation_in; [apply Permutation_sym; exact Hp|exact Hx].
Qed.

Lemma Forall_subperm (P : A -> Prop) l1 l2 : subperm l1 l2 -> Forall P l2 -> Forall P l1.
Proof.
  intros Hs Hf. rewrite Forall_forall in *. intros x Hx. apply Hf. now apply (subperm_incl _ _ Hs).
Qed.

Lemma subperm_sum l1 l2 :
  subperm l1 l2 -> Forall (fun x => 0 <= amt x) l2 -> sum_amt amt l1 <= sum_amt amt l2.
Proof.
  intros [r H] Hf. rewrite <- (sum_amt_perm _ _ H), sum_amt_app.
  assert (0 <= sum_amt amt r); [|lia].
  apply sum_amt_nonneg. apply (Forall_perm _ _ _ (Permutation_sym H)) in Hf.
  apply Forall_app in Hf. tauto.
Qed.

End Sub.
Arguments subperm {A}.

(* ================================================================== part 2: selection *)

Section SelProofs.
Variable A : Type.
Variable amt : A -> Z.
Notation sum := (sum_amt amt).

Lemma subperm_perm_l (l1 l1' l2 : list A) : Permutation l1 l1' -> subperm l1' l2 -> subperm l1 l2.
Proof.
  intros Hp [r H]. exists r. eapply Permutation_trans; [|exact H]. now apply Permutation_app_tail.
Qed.

(* ---- sort.Slice (descending): a permutation; the amount sequence is the same for any stable or
   unstable sort, so the insertion sort stands for Go's pdqsort *)
Lemma ins_desc_perm x l : Permutation (ins_desc amt x l) (x :: l).
Proof.
  induction l as [|y t IH]; simpl; [reflexivity|].
  destruct (amt y <? amt x); [reflexivity|].
  eapply perm_trans; [apply perm_skip; exact IH|apply perm_swap].
Qed.

Lemma sort_desc_perm l : Permutation (sort_desc amt l) l.
Proof.
  induction l as [|x t IH]; simpl; [constructor|].
  eapply perm_trans; [apply ins_desc_perm|]. now constructor.
Qed.

(* ---- the greedy loop of optOutputs *)

(* whatever it returns is the snapshot it started with or a sub-multiset of what it was given *)
Lemma greedy_shape (Q : list A -> Prop) M a : forall l sel snap opt res P r,
  subperm sel P ->
  (forall s u, snap = Some (s, u) -> Q (s ++ [u]) \/ subperm (s ++ [u]) P) ->
  greedy amt M a l sel snap opt res = Some r ->
  Q r \/ subperm r (P ++ l).
Proof.
  induction l as [|x rest IH]; intros sel snap opt res P r Hsel Hsnap Hg.
  - simpl in Hg. injection Hg as <-. right. rewrite app_nil_r. exact Hsel.
  - cbn [greedy] in Hg. destruct (M <? res + amt x); [discriminate|].
    destruct rest as [|y rest'].
    + destruct (opt + amt x <? a).
      * destruct snap as [[s u]|].
        -- injection Hg as <-. destruct (Hsnap s u eq_refl) as [HQ|Hs]; [now left|right].
           now apply subperm_app_r.
        -- injection Hg as <-. right. now apply subperm_snoc.
      * injection Hg as <-. right. now apply subperm_snoc.
    + destruct (a <? opt + amt x).
      * specialize (IH sel (Some (sel, x)) opt (res + amt x) (P ++ [x]) r).
        rewrite <- app_assoc in IH. simpl in IH. apply IH; auto.
        -- now apply subperm_app_r.
        -- intros s u Heq. injection Heq as <- <-. right. now apply subperm_snoc.
      * destruct (opt + amt x =? a).
        -- injection Hg as <-. right.
           replace (P ++ x :: y :: rest') with ((P ++ [x]) ++ y :: rest') by (now rewrite <- app_assoc).
           apply subperm_app_r. now apply subperm_snoc.
        -- specialize (IH (sel ++ [x]) snap (opt + amt x) (res + amt x) (P ++ [x]) r).
           rewrite <- app_assoc in IH. simpl in IH. apply IH; auto.
           ++ now apply subperm_snoc.
           ++ intros s u Heq. destruct (Hsnap s u Heq) as [HQ|Hs]; [now left|right].
              now apply subperm_app_r.
Qed.

(* if the coins it is given reach the amount, so does its selection *)
Lemma greedy_sum M a : forall l sel snap opt res P r,
  opt = sum sel -> opt < a ->
  (forall s u, snap = Some (s, u) -> a < sum (s ++ [u])) ->
  (snap = None -> sel = P) ->
  l <> [] ->
  greedy amt M a l sel snap opt res = Some r ->
  a <= sum (P ++ l) -> a <= sum r.
Proof.
  induction l as [|x rest IH]; intros sel snap opt res P r Hopt Hlt Hsnap Hnone Hne Hg Htot.
  - congruence.
  - cbn [greedy] in Hg. destruct (M <? res + amt x); [discriminate|].
    destruct rest as [|y rest'].
    + destruct (opt + amt x <? a) eqn:Hc.
      * destruct snap as [[s u]|].
        -- injection Hg as <-. specialize (Hsnap s u eq_refl). lia.
        -- injection Hg as <-. rewrite (Hnone eq_refl). exact Htot.
      * injection Hg as <-. rewrite sum_amt_app. simpl. apply Z.ltb_ge in Hc. lia.
    + destruct (a <? opt + amt x) eqn:Hgt.
      * apply Z.ltb_lt in Hgt.
        apply (IH sel (Some (sel, x)) opt (res + amt x) (P ++ [x]) r); auto; try congruence.
        -- intros s u Heq. injection Heq as <- <-. rewrite sum_amt_app. simpl. lia.
        -- now rewrite <- app_assoc.
      * apply Z.ltb_ge in Hgt. destruct (opt + amt x =? a) eqn:Heq.
        -- apply Z.eqb_eq in Heq. injection Hg as <-. rewrite sum_amt_app. simpl. lia.
        -- apply Z.eqb_neq in Heq.
           apply (IH (sel ++ [x]) snap (opt + amt x) (res + amt x) (P ++ [x]) r); auto; try congruence.
           ++ rewrite sum_amt_app. simpl. lia.
           ++ lia.
           ++ intros Hn. now rewrite (Hnone Hn).
           ++ now rewrite <- app_assoc.
Qed.

(* the checked additions do not fail when the total stays within MaxAmount *)
Lemma greedy_some M a : forall l sel snap opt res,
  Forall (fun x => 0 <= amt x) l -> res + sum l <= M ->
  greedy amt M a l sel snap opt res <> None.
Proof.
  induction l as [|x rest IH]; intros sel snap opt res Hf Hm; [discriminate|].
  cbn [greedy]. inversion Hf as [|x' l' Hx Hrest]; subst. simpl in Hm.
  assert (Hr : 0 <= sum rest) by now apply sum_amt_nonneg.
  destruct (M <? res + amt x) eqn:Hc; [apply Z.ltb_lt in Hc; lia|].
  destruct rest as [|y rest'].
  - destruct (opt + amt x <? a); [destruct snap as [[s u]|]|]; discriminate.
  - destruct (a <? opt + amt x); [apply IH; auto; lia|].
    destruct (opt + amt x =? a); [discriminate|]. apply IH; auto. lia.
Qed.

(* ---- optOutputs *)
Lemma opt_outputs_subperm M a l r : opt_outputs amt M a l = Some r -> subperm r l.
Proof.
  unfold opt_outputs. destruct (a =? 0); intros H.
  - injection H as <-. apply subperm_nil.
  - destruct (greedy_shape (fun _ => False) M a (sort_desc amt l) [] None 0 0 [] r (subperm_nil _ _)) as [[]|Hs]; auto.
    + discriminate.
    + simpl in Hs. eapply subperm_trans; [exact Hs|]. apply subperm_perm. apply sort_desc_perm.
Qed.

Lemma opt_outputs_sum M a l r :
  0 < a -> opt_outputs amt M a l = Some r -> a <= sum l -> a <= sum r.
Proof.
  unfold opt_outputs. intros Ha. destruct (a =? 0) eqn:H0; [apply Z.eqb_eq in H0; lia|].
  intros Hg Htot.
  destruct (sort_desc amt l) as [|x t] eqn:Hs.
  - pose proof (sort_desc_perm l) as Hp. rewrite Hs in Hp. apply Permutation_nil in Hp. subst l.
    simpl in Htot. lia.
  - apply (greedy_sum M a (x :: t) [] None 0 0 [] r); auto; try discriminate.
    simpl app. rewrite <- Hs. now rewrite (sum_amt_perm _ _ _ _ (sort_desc_perm l)).
Qed.

Lemma opt_outputs_some M a l :
  Forall (fun x => 0 <= amt x) l -> sum l <= M -> opt_outputs amt M a l <> None.
Proof.
  intros Hf Hm. unfold opt_outputs. destruct (a =? 0); [discriminate|].
  apply greedy_some.
  - eapply Forall_perm; [apply Permutation_sym, sort_desc_perm|exact Hf].
  - rewrite (sum_amt_perm _ _ _ _ (sort_desc_perm l)). lia.
Qed.

(* ---- slices *)
Lemma upd_length (l : list A) i x : length (upd l i x) = length l.
Proof. revert i. induction l as [|h t IH]; intros [|i]; simpl; auto. Qed.

Lemma upd_perm (l : list A) : forall i a x, nth_error l i = Some a -> Permutation (x :: l) (a :: upd l i x).
Proof.
  induction l as [|h t IH]; intros [|i] a x H; simpl in *; try discriminate.
  - injection H as <-. apply perm_swap.
  - eapply perm_trans; [apply perm_swap|]. eapply perm_trans; [apply perm_skip, (IH i a x H)|]. apply perm_swap.
Qed.

Lemma nth_error_upd_neq (l : list A) : forall i j x, i <> j -> nth_error (upd l i x) j = nth_error l j.
Proof.
  induction l as [|h t IH]; intros [|i] [|j] x H; simpl; auto; try congruence.
Qed.

Lemma swap_perm (l : list A) i j : i <> j -> Permutation (swap l i j) l.
Proof.
  intros Hij. unfold swap.
  destruct (nth_error l i) as [a|] eqn:Hi; [|reflexivity].
  destruct (nth_error l j) as [b|] eqn:Hj; [|reflexivity].
  pose proof (upd_perm l i a b Hi) as H1.
  assert (Hj' : nth_error (upd l i b) j = Some b) by (now rewrite nth_error_upd_neq).
  pose proof (upd_perm _ j b a Hj') as H2.
  apply Permutation_sym. eapply Permutation_cons_inv with (a := b).
  eapply perm_trans; [exact H1|exact H2].
Qed.

Lemma adjust_perm f k : forall (b : list A) cur, Permutation (adjust amt f k b cur) b.
Proof.
  induction f as [|f IH]; intros b cur; cbn [adjust]; [reflexivity|].
  destruct (cur <? k / 2)%nat; [|reflexivity].
  destruct (nth_error b cur) as [vcur|]; [|reflexivity].
  destruct (nth_error b (2 * cur + 1)) as [v0|]; [|reflexivity].
  set (child := match nth_error b (2 * cur + 1 + 1) with
                | Some v1 => if ((2 * cur + 1 + 1 <? k)%nat && (amt v1 <? amt v0))%bool
                             then (2 * cur + 1 + 1)%nat else (2 * cur + 1)%nat
                | None => (2 * cur + 1)%nat end).
  assert (Hc : (cur <> child)%nat).
  { unfold child. destruct (nth_error b (2 * cur + 1 + 1)); [destruct (_ && _)%bool|]; lia. }
  destruct (nth_error b child) as [vch|]; [|reflexivity].
  destruct (amt vch <? amt vcur); [|reflexivity].
  eapply perm_trans; [apply IH|]. now apply swap_perm.
Qed.

Lemma heapify_perm k (b : list A) : Permutation (heapify amt k b) b.
Proof.
  unfold heapify. generalize (rev (seq 0 (k / 2))). intros l. revert b.
  induction l as [|i t IH]; intros b; simpl; [reflexivity|].
  eapply perm_trans; [apply IH|]. apply adjust_perm.
Qed.

(* ---- topKSelector: what it keeps is part of what it was offered; at most k + 1 coins *)
Definition tk_inv (k : nat) (s : tk A) (P : list A) : Prop :=
  subperm (tk_items s) P /\ (length (tk_base s) <= k)%nat.

Lemma submit_inv k req s x P : tk_inv k s P -> tk_inv k (submit amt k req s x) (P ++ [x]).
Proof.
  intros [Hs Hl]. destruct s as [base guard]. unfold tk_inv, submit, tk_items in *.
  cbn [tk_base tk_guard] in *.
  destruct (req <? amt x).
  - destruct guard as [g|].
    + destruct (amt x <? amt g); cbn [tk_base tk_guard]; split; auto.
      * apply subperm_snoc. now apply subperm_app_inv_l in Hs.
      * now apply subperm_app_r.
    + cbn [tk_base tk_guard]; split; auto. rewrite app_nil_r in Hs. now apply subperm_snoc.
  - set (gl := match guard with Some g => [g] | None => [] end) in *.
    destruct (length base <? k)%nat eqn:Hlt.
    + apply Nat.ltb_lt in Hlt.
      assert (Hp : subperm ((base ++ [x]) ++ gl) (P ++ [x])).
      { eapply subperm_perm_l; [|apply subperm_snoc; exact Hs].
        rewrite <- !app_assoc. apply Permutation_app_head. apply Permutation_app_comm. }
      assert (Hlen : (length (base ++ [x]) <= k)%nat) by (rewrite app_length; simpl; lia).
      destruct (length (base ++ [x]) =? k)%nat; cbn [tk_base tk_guard]; fold gl.
      * split.
        -- eapply subperm_perm_l; [|exact Hp]. apply Permutation_app_tail. apply heapify_perm.
        -- rewrite (Permutation_length (heapify_perm k (base ++ [x]))). exact Hlen.
      * split; auto.
    + destruct base as [|r t].
      { cbn [tk_base tk_guard]; fold gl. split; auto. now apply subperm_app_r. }
      destruct ((0 <? k)%nat && (amt r <? amt x))%bool; cbn [tk_base tk_guard]; fold gl.
      * split.
        -- assert (Ht : subperm (t ++ gl) P).
           { destruct Hs as [rest Hr]. exists (r :: rest).
             eapply perm_trans; [|exact Hr]. simpl. apply Permutation_sym. apply Permutation_middle. }
           eapply subperm_perm_l; [|apply subperm_snoc; exact Ht].
           eapply perm_trans; [apply Permutation_app_tail; apply adjust_perm|].
           simpl. apply Permutation_cons_append.
        -- rewrite (Permutation_length (adjust_perm k k (x :: t) 0)). exact Hl.
      * split; auto. now apply subperm_app_r.
Qed.

Lemma tk_run_inv k req : forall l s P, tk_inv k s P -> tk_inv k (fold_left (submit amt k req) l s) (P ++ l).
Proof.
  induction l as [|x t IH]; intros s P H; simpl.
  - now rewrite app_nil_r.
  - replace (P ++ x :: t) with ((P ++ [x]) ++ t) by (now rewrite <- app_assoc).
    apply IH. now apply submit_inv.
Qed.

Lemma top_k_subperm k req l : subperm (top_k amt k req l) l.
Proof.
  destruct (tk_run_inv k req l (mkTk [] None) []) as [H _].
  - split; [apply subperm_nil|simpl; lia].
  - exact H.
Qed.

Lemma top_k_length k req l : (length (top_k amt k req l) <= k + 1)%nat.
Proof.
  destruct (tk_run_inv k req l (mkTk [] None) []) as [_ H].
  - split; [apply subperm_nil|simpl; lia].
  - unfold top_k, tk_items, tk_run. rewrite app_length.
    destruct (tk_guard _); simpl; lia.
Qed.

End SelProofs.

(* ================================================================== part 3: fee arithmetic *)

Lemma min_relay_ge : 1000 <= min_relay.
Proof. unfold min_relay, MinRelayTxFee. lia. Qed.

Lemma max_amount_ge : min_relay <= max_amount.
Proof. unfold min_relay, max_amount, MinRelayTxFee, MaxMass, MaxwellPerMass. lia. Qed.

Lemma sel_k_val : sel_k = 649%nat.
Proof. reflexivity. Qed.

Lemma sel_k_pos : (1 <= sel_k)%nat.
Proof. rewrite sel_k_val. lia. Qed.

Lemma per_input_val : per_input = 154.
Proof. reflexivity. Qed.

Lemma required_fee_char size : 0 < size ->
  required_fee size = Z.min (min_relay * size / 1000) max_amount /\ size <= min_relay * size / 1000.
Proof.
  intros Hs. pose proof min_relay_ge as Hm.
  assert (Hr : size <= min_relay * size / 1000).
  { apply Z.div_le_lower_bound; nia. }
  split; [|exact Hr]. unfold required_fee.
  destruct (min_relay * size / 1000 =? 0) eqn:H0; [apply Z.eqb_eq in H0; lia|]. cbn [andb].
  destruct (max_amount <? min_relay * size / 1000) eqn:Hc.
  - apply Z.ltb_lt in Hc. lia.
  - apply Z.ltb_ge in Hc. lia.
Qed.

Lemma required_fee_mono s1 s2 : 0 < s1 -> s1 <= s2 -> required_fee s1 <= required_fee s2.
Proof.
  intros H1 H2. destruct (required_fee_char s1 H1) as [E1 _].
  destruct (required_fee_char s2) as [E2 _]; [lia|]. rewrite E1, E2.
  pose proof min_relay_ge.
  assert (min_relay * s1 / 1000 <= min_relay * s2 / 1000) by (apply Z.div_le_mono; nia). lia.
Qed.

Lemma required_fee_pos s : 0 < s -> 0 < required_fee s.
Proof.
  intros Hs. destruct (required_fee_char s Hs) as [E Hr]. rewrite E. pose proof max_amount_ge. pose proof min_relay_ge. lia.
Qed.

Lemma estimate_mono a b n m p : a <= b -> n <= m ->
  estimate_signed_size a n p <= estimate_signed_size b m p.
Proof. unfold estimate_signed_size, per_input, per_output, redeem_script_len, sig_len. lia. Qed.

Lemma estimate_pos a n p : 0 <= a -> 0 <= n -> 0 <= p -> 0 < estimate_signed_size a n p.
Proof. unfold estimate_signed_size, per_input, per_output, redeem_script_len, sig_len, tx_overhead. lia. Qed.

(* the size order of candidates is the order of 2*inputs + (change ? 1 : 0) *)
Lemma estimate_rank a d a' d' n p : 0 <= d <= 1 -> 0 <= d' <= 1 ->
  estimate_signed_size a (n + d) p < estimate_signed_size a' (n + d') p -> 2 * a + d < 2 * a' + d'.
Proof. unfold estimate_signed_size, per_input, per_output, redeem_script_len, sig_len. lia. Qed.

(* ================================================================== part 4: the fee loop *)

Notation usum := (sum_amt u_amt).

Definition pos_amounts (l : list utxo) : Prop := Forall (fun u => 0 < u_amt u) l.

Lemma pos_nonneg l : pos_amounts l -> Forall (fun u => 0 <= u_amt u) l.
Proof. unfold pos_amounts. apply Forall_impl. intros; lia. Qed.

Lemma find_eligible_ok w cands sel found ov :
  find_eligible w cands = Ok (sel, found, ov) ->
  subperm sel (top_k u_amt sel_k w cands) /\ found = usum sel /\ w <> 0 /\
  ov = ((length (top_k u_amt sel_k w cands) =? sel_k)%nat &&
        (length (top_k u_amt sel_k w cands) =? length sel)%nat)%bool.
Proof.
  unfold find_eligible. destruct (w =? 0) eqn:H0; [discriminate|].
  destruct (opt_outputs u_amt max_amount w _) as [s|] eqn:Ho; [|discriminate].
  intros H. injection H as <- <- <-. apply Z.eqb_neq in H0.
  split; [now apply opt_outputs_subperm in Ho|]. auto.
Qed.

Lemma find_eligible_sub w cands sel found ov :
  find_eligible w cands = Ok (sel, found, ov) -> subperm sel cands.
Proof.
  intros H. apply find_eligible_ok in H. destruct H as [Hs _].
  eapply subperm_trans; [exact Hs|apply top_k_subperm].
Qed.

Lemma find_eligible_not_oof w cands : find_eligible w cands <> Err EOutOfFuel /\ find_eligible w cands <> Panic.
Proof.
  unfold find_eligible. destruct (w =? 0); [split; discriminate|].
  destruct (opt_outputs _ _ _ _); split; discriminate.
Qed.

(* what one run of the inner loop guarantees *)
Definition change_val (ch : option Z) : Z := match ch with Some c => c | None => 0 end.

Lemma inner_ok fuel : forall cands out target adj cok sel ch,
  inner fuel cands out target adj cok = Ok (sel, ch) ->
  subperm sel cands /\ usum sel = target + out + change_val ch /\
  (forall c, ch = Some c -> min_relay <= c) /\
  (exists w, subperm sel (top_k u_amt sel_k w cands)).
Proof.
  induction fuel as [|f IH]; intros cands out target adj cok sel ch H; [discriminate|].
  cbn [inner] in H.
  destruct (max_amount <? target + out); [discriminate|].
  destruct (max_amount <? target + out + adj); [discriminate|].
  destruct (find_eligible (target + out + adj) cands) as [[[s found] ov]|e|] eqn:Hf; try discriminate.
  pose proof (find_eligible_sub _ _ _ _ _ Hf) as Hsub.
  apply find_eligible_ok in Hf. destruct Hf as [Hsk [Hfound _]].
  destruct (found <? target + out + adj); [destruct ov; discriminate|].
  destruct (found - (target + out) =? 0) eqn:Hz.
  - injection H as <- <-. apply Z.eqb_eq in Hz. simpl. repeat split; auto; try lia; try discriminate.
    eexists; exact Hsk.
  - destruct (found - (target + out) <? min_relay) eqn:Hd.
    + now apply IH in H.
    + destruct cok; [|discriminate]. injection H as <- <-. apply Z.ltb_ge in Hd. simpl.
      repeat split; auto; try lia.
      * intros c Hc. injection Hc as <-. lia.
      * eexists; exact Hsk.
Qed.

Lemma inner_unfold f cands out target adj cok :
  inner (S f) cands out target adj cok =
    if max_amount <? target + out then Err EOther
    else if max_amount <? target + out + adj then Err EOther
    else match find_eligible (target + out + adj) cands with
         | Err e => Err e
         | Panic => Panic
         | Ok (sel, found, overfull) =>
           if found <? target + out + adj then (if overfull then Err EOverfull else Err EInsufficient)
           else if found - (target + out) =? 0 then Ok (sel, None)
           else if found - (target + out) <? min_relay then inner f cands out target min_relay cok
           else if cok then Ok (sel, Some (found - (target + out)))
           else Err EInvalid
         end.
Proof. reflexivity. Qed.

Lemma inner_no_oof cands out target cok :
  inner inner_fuel cands out target 0 cok <> Err EOutOfFuel.
Proof.
  pose proof min_relay_ge as Hm.
  assert (Hstep : forall f, inner (S f) cands out target min_relay cok <> Err EOutOfFuel).
  { intros f. rewrite inner_unfold.
    destruct (max_amount <? target + out); [discriminate|].
    destruct (max_amount <? target + out + min_relay); [discriminate|].
    destruct (find_eligible_not_oof (target + out + min_relay) cands) as [Hn _].
    destruct (find_eligible (target + out + min_relay) cands) as [[[s found] ov]|e|]; try discriminate.
    - destruct (found <? target + out + min_relay) eqn:Hc; [destruct ov; discriminate|].
      apply Z.ltb_ge in Hc.
      destruct (found - (target + out) =? 0) eqn:Hz; [discriminate|].
      destruct (found - (target + out) <? min_relay) eqn:Hd; [apply Z.ltb_lt in Hd; lia|].
      destruct cok; discriminate.
    - intros H. injection H as ->. now apply Hn. }
  unfold inner_fuel. rewrite inner_unfold.
  destruct (max_amount <? target + out); [discriminate|].
  destruct (max_amount <? target + out + 0); [discriminate|].
  destruct (find_eligible_not_oof (target + out + 0) cands) as [Hn _].
  destruct (find_eligible (target + out + 0) cands) as [[[s found] ov]|e|]; try discriminate.
  - destruct (found <? target + out + 0); [destruct ov; discriminate|].
    destruct (found - (target + out) =? 0); [discriminate|].
    destruct (found - (target + out) <? min_relay); [apply Hstep|].
    destruct cok; discriminate.
  - intros H. injection H as ->. now apply Hn.
Qed.

(* ---- the selection never has more than K coins (the guard and the heap are never taken together) *)
Section KBound.
Variable A : Type.
Variable amt : A -> Z.

Definition tk_bounds (req : Z) (s : tk A) : Prop :=
  Forall (fun b => amt b <= req) (tk_base s) /\ (forall g, tk_guard s = Some g -> req < amt g).

Lemma submit_bounds k req s x : tk_bounds req s -> tk_bounds req (submit amt k req s x).
Proof.
  intros [Hb Hg]. destruct s as [base guard]. unfold tk_bounds, submit in *. cbn [tk_base tk_guard] in *.
  destruct (req <? amt x) eqn:Hx.
  - apply Z.ltb_lt in Hx.
    destruct guard as [g|]; [destruct (amt x <? amt g)|]; cbn [tk_base tk_guard]; split; auto;
      intros g' Hg'; injection Hg' as <-; auto.
  - apply Z.ltb_ge in Hx.
    assert (Hbx : Forall (fun b => amt b <= req) (base ++ [x])).
    { apply Forall_app. split; auto. }
    destruct (length base <? k)%nat.
    + destruct (length (base ++ [x]) =? k)%nat; cbn [tk_base tk_guard]; split; auto.
      eapply Forall_perm; [apply Permutation_sym, heapify_perm|exact Hbx].
    + destruct base as [|r t]; [cbn [tk_base tk_guard]; split; auto|].
      destruct ((0 <? k)%nat && (amt r <? amt x))%bool; cbn [tk_base tk_guard]; split; auto.
      eapply Forall_perm; [apply Permutation_sym, adjust_perm|].
      inversion Hb; subst. constructor; auto.
Qed.

Lemma tk_run_bounds k req l : tk_bounds req (tk_run amt k req l).
Proof.
  unfold tk_run.
  assert (H : forall l s, tk_bounds req s -> tk_bounds req (fold_left (submit amt k req) l s)).
  { induction l0 as [|x t IH]; intros s Hs; simpl; auto. apply IH. now apply submit_bounds. }
  apply H. split; [constructor|discriminate].
Qed.

Lemma sort_desc_snoc_max g : forall base, Forall (fun b => amt b < amt g) base ->
  sort_desc amt (base ++ [g]) = g :: sort_desc amt base.
Proof.
  induction base as [|b t IH]; intros Hf; simpl; [reflexivity|].
  inversion Hf as [|b' t' Hb Ht]; subst. rewrite (IH Ht). simpl.
  destruct (amt g <? amt b) eqn:Hc; [apply Z.ltb_lt in Hc; lia|reflexivity].
Qed.

Lemma opt_outputs_top_k_length M k req l r : (1 <= k)%nat ->
  opt_outputs amt M req (top_k amt k req l) = Some r -> (length r <= k)%nat.
Proof.
  intros Hk Ho.
  pose proof (tk_run_bounds k req l) as [Hb Hg].
  destruct (tk_run_inv A amt k req l (mkTk [] None) []) as [_ Hlen];
    [split; [apply subperm_nil|simpl; lia]|]. simpl in Hlen. fold (tk_run amt k req l) in Hlen.
  unfold top_k, tk_items in Ho.
  destruct (tk_guard (tk_run amt k req l)) as [g|] eqn:Eg.
  - specialize (Hg g eq_refl).
    unfold opt_outputs in Ho. destruct (req =? 0); [injection Ho as <-; simpl; lia|].
    rewrite sort_desc_snoc_max in Ho.
    2:{ eapply Forall_impl; [|exact Hb]. cbv beta. intros; lia. }
    destruct (sort_desc amt (tk_base (tk_run amt k req l))) as [|y t] eqn:Es.
    + cbn [greedy] in Ho. destruct (M <? 0 + amt g); [discriminate|].
      destruct (0 + amt g <? req); injection Ho as <-; simpl; lia.
    + cbn [greedy] in Ho. destruct (M <? 0 + amt g); [discriminate|].
      destruct (req <? 0 + amt g) eqn:Hc; [|apply Z.ltb_ge in Hc; lia].
      destruct (greedy_shape A amt (fun r => r = [g]) M req (y :: t) [] (Some ([], g)) 0 (0 + amt g) [] r) as [Hq|Hs]; auto.
      * apply subperm_nil.
      * intros s u Heq. injection Heq as <- <-. now left.
      * subst r. simpl. lia.
      * simpl in Hs. apply subperm_length in Hs. rewrite <- Es in Hs.
        rewrite (Permutation_length (sort_desc_perm A amt _)) in Hs. lia.
  - rewrite app_nil_r in Ho. apply opt_outputs_subperm in Ho. apply subperm_length in Ho. lia.
Qed.
End KBound.

Lemma find_eligible_length w cands sel found ov :
  find_eligible w cands = Ok (sel, found, ov) ->
  (length sel <= sel_k)%nat /\ (length sel <= length cands)%nat.
Proof.
  intros H. split.
  - unfold find_eligible in H. destruct (w =? 0); [discriminate|].
    destruct (opt_outputs u_amt max_amount w _) as [s|] eqn:Ho; [|discriminate].
    injection H as <- _ _. eapply opt_outputs_top_k_length; [apply sel_k_pos|exact Ho].
  - apply find_eligible_sub in H. now apply subperm_length.
Qed.

Lemma inner_length fuel : forall cands out target adj cok sel ch,
  inner fuel cands out target adj cok = Ok (sel, ch) ->
  (length sel <= sel_k)%nat /\ (length sel <= length cands)%nat.
Proof.
  induction fuel as [|f IH]; intros cands out target adj cok sel ch H; [discriminate|].
  rewrite inner_unfold in H.
  destruct (max_amount <? target + out); [discriminate|].
  destruct (max_amount <? target + out + adj); [discriminate|].
  destruct (find_eligible (target + out + adj) cands) as [[[s found] ov]|e|] eqn:Hf; try discriminate.
  apply find_eligible_length in Hf.
  destruct (found <? target + out + adj); [destruct ov; discriminate|].
  destruct (found - (target + out) =? 0); [injection H as <- <-; exact Hf|].
  destruct (found - (target + out) <? min_relay); [now apply IH in H|].
  destruct cok; [|discriminate]. injection H as <- <-. exact Hf.
Qed.

(* ---- outer loop *)
Definition nch (ch : option Z) : Z := match ch with Some _ => 1 | None => 0 end.

Lemma outer_unfold f cands out nout payload target cok :
  outer (S f) cands out nout payload target cok =
    match inner inner_fuel cands out target 0 cok with
    | Err e => Err e
    | Panic => Panic
    | Ok (sel, ch) =>
      if required_fee (estimate_signed_size (Z.of_nat (length sel)) (nout + nch ch) payload) <=? target
      then Ok (sel, ch, target)
      else outer f cands out nout payload
             (required_fee (estimate_signed_size (Z.of_nat (length sel)) (nout + nch ch) payload)) cok
    end.
Proof. reflexivity. Qed.

Lemma cand_size_le (cands sel : list utxo) ch nout payload :
  (length sel <= sel_k)%nat -> (length sel <= length cands)%nat ->
  estimate_signed_size (Z.of_nat (length sel)) (nout + nch ch) payload
  <= size_cap (Z.of_nat (length cands)) nout payload.
Proof.
  intros H1 H2. unfold size_cap. apply estimate_mono; [lia|]. destruct ch; simpl; lia.
Qed.

Lemma outer_ok f : forall cands out nout payload target cok sel ch fee,
  0 <= nout -> 0 <= payload ->
  outer f cands out nout payload target cok = Ok (sel, ch, fee) ->
  subperm sel cands /\ usum sel = fee + out + change_val ch /\
  (forall c, ch = Some c -> min_relay <= c) /\
  target <= fee /\
  required_fee (estimate_signed_size (Z.of_nat (length sel)) (nout + nch ch) payload) <= fee /\
  fee <= Z.max target (required_fee (size_cap (Z.of_nat (length cands)) nout payload)) /\
  (length sel <= sel_k)%nat /\ (length sel <= length cands)%nat.
Proof.
  induction f as [|f IH]; intros cands out nout payload target cok sel ch fee Hn Hp H; [discriminate|].
  rewrite outer_unfold in H.
  destruct (inner inner_fuel cands out target 0 cok) as [[s c]|e|] eqn:Hi; try discriminate.
  pose proof (inner_length _ _ _ _ _ _ _ _ Hi) as [Hl1 Hl2].
  pose proof (cand_size_le cands s c nout payload Hl1 Hl2) as Hsz.
  assert (Hpos : 0 < estimate_signed_size (Z.of_nat (length s)) (nout + nch c) payload).
  { apply estimate_pos; try lia. destruct c; simpl; lia. }
  pose proof (required_fee_mono _ _ Hpos Hsz) as Hmono.
  destruct (required_fee _ <=? target) eqn:Hc.
  - injection H as <- <- <-. apply Z.leb_le in Hc.
    apply inner_ok in Hi. destruct Hi as [Hs [Hsum [Hch _]]].
    repeat split; auto; lia.
  - apply Z.leb_gt in Hc. apply IH in H; auto.
    destruct H as [Hs [Hsum [Hch [Ht [Hr [Hcap [Hk Hc2]]]]]]].
    repeat split; auto; lia.
Qed.

(* more fuel does not change a result that did not run out of fuel: the fuelled function is the
   unbounded Go loop *)
Lemma outer_fuel_mono f : forall cands out nout payload target cok,
  outer f cands out nout payload target cok <> Err EOutOfFuel ->
  outer (S f) cands out nout payload target cok = outer f cands out nout payload target cok.
Proof.
  induction f as [|f IH]; intros cands out nout payload target cok H; [now contradict H|].
  rewrite (outer_unfold (S f)). rewrite outer_unfold in H. rewrite outer_unfold.
  destruct (inner inner_fuel cands out target 0 cok) as [[s c]|e|]; auto.
  destruct (required_fee _ <=? target); auto.
Qed.

(* termination: from the second iteration on the target is the relay minimum of a candidate size,
   and a further iteration needs a strictly larger candidate; candidates are ranked by
   2*inputs + change in 0 .. 2K+1 *)
Lemma outer_terminates_from f : forall cands out nout payload cok a d,
  0 <= nout -> 0 <= payload -> 0 <= a <= Z.of_nat sel_k -> 0 <= d <= 1 ->
  2 * Z.of_nat sel_k + 3 <= Z.of_nat f + (2 * a + d) ->
  outer f cands out nout payload (required_fee (estimate_signed_size a (nout + d) payload)) cok
  <> Err EOutOfFuel.
Proof.
  induction f as [|f IH]; intros cands out nout payload cok a d Hn Hp Ha Hd Hf; [lia|].
  rewrite outer_unfold.
  pose proof (inner_no_oof cands out (required_fee (estimate_signed_size a (nout + d) payload)) cok) as Hno.
  destruct (inner inner_fuel cands out _ 0 cok) as [[s c]|e|] eqn:Hi; try discriminate.
  - pose proof (inner_length _ _ _ _ _ _ _ _ Hi) as [Hl1 _].
    destruct (required_fee _ <=? _) eqn:Hc; [discriminate|]. apply Z.leb_gt in Hc.
    apply IH; auto; try lia.
    + destruct c; simpl; lia.
    + assert (Hlt : estimate_signed_size a (nout + d) payload
                    < estimate_signed_size (Z.of_nat (length s)) (nout + nch c) payload).
      { destruct (Z_lt_le_dec (estimate_signed_size a (nout + d) payload)
                              (estimate_signed_size (Z.of_nat (length s)) (nout + nch c) payload)) as [|Hle]; auto.
        exfalso. apply required_fee_mono in Hle; [lia|].
        apply estimate_pos; try lia. destruct c; simpl; lia. }
      apply estimate_rank in Hlt; [lia|lia|destruct c; simpl; lia].
  - intros H. injection H as ->. now apply Hno.
Qed.

Lemma outer_terminates f cands out nout payload target cok :
  0 <= nout -> 0 <= payload -> (outer_fuel <= f)%nat ->
  outer f cands out nout payload target cok <> Err EOutOfFuel.
Proof.
  intros Hn Hp Hf. unfold outer_fuel in Hf. destruct f as [|f]; [lia|].
  rewrite outer_unfold.
  pose proof (inner_no_oof cands out target cok) as Hno.
  destruct (inner inner_fuel cands out target 0 cok) as [[s c]|e|] eqn:Hi; try discriminate.
  - pose proof (inner_length _ _ _ _ _ _ _ _ Hi) as [Hl1 _].
    destruct (required_fee _ <=? _); [discriminate|].
    apply outer_terminates_from; auto; try lia; destruct c; cbn [nch]; lia.
  - intros H. injection H as ->. now apply Hno.
Qed.

(* ================================================================== part 5: automatic creation *)

Lemma memZ_In x l : memZ x l = true <-> In x l.
Proof.
  unfold memZ. rewrite existsb_exists. split.
  - intros [y [Hy He]]. apply Z.eqb_eq in He. now subst.
  - intros H. exists x. split; auto. apply Z.eqb_refl.
Qed.

Lemma memZ_false x l : memZ x l = false <-> ~ In x l.
Proof.
  split; intros H.
  - intros Hin. apply memZ_In in Hin. congruence.
  - destruct (memZ x l) eqn:E; auto. apply memZ_In in E. contradiction.
Qed.

(* the eligibility filter, as a proposition: own address (of the sender address if one is given),
   positive, mature, not spent, not spent by a pending transaction, standard class, not reserved, not
   spent in the node's mempool *)
Definition is_eligible (addrs reserved pool : list Z) (u : utxo) : Prop :=
  0 < u_amt u /\ In (u_sh u) addrs /\ u_mat u <= u_confs u /\ u_su u = false /\ u_spent u = false /\
  u_class u <> 2 /\ u_class u <> 1 /\ ~ In (u_id u) reserved /\ ~ In (u_id u) pool.

Lemma eligible_b_spec addrs reserved pool u :
  eligible_b addrs reserved pool u = true <-> is_eligible addrs reserved pool u.
Proof.
  unfold eligible_b, is_eligible. rewrite !andb_true_iff, !negb_true_iff.
  rewrite Z.ltb_lt, Z.leb_le, memZ_In, !memZ_false, !Z.eqb_neq. tauto.
Qed.

Lemma eligible_spec addrs reserved pool l u :
  In u (eligible addrs reserved pool l) <-> In u l /\ is_eligible addrs reserved pool u.
Proof. unfold eligible. rewrite filter_In, eligible_b_spec. tauto. Qed.

Lemma eligible_pos addrs reserved pool l : pos_amounts (eligible addrs reserved pool l).
Proof.
  unfold pos_amounts. rewrite Forall_forall. intros u Hu. apply eligible_spec in Hu.
  destruct Hu as [_ [H _]]. exact H.
Qed.

Lemma eligible_subperm addrs reserved pool l : subperm (eligible addrs reserved pool l) l.
Proof.
  unfold eligible. induction l as [|x t IH]; simpl; [apply subperm_nil|].
  destruct (eligible_b _ _ _ x); [now apply subperm_cons|now apply subperm_cons_r].
Qed.

Definition req_addrs (st : wstate) (r : areq) : list Z :=
  match a_from r with Some f => [f] | None => w_addrs st end.
Definition elig (st : wstate) (r : areq) : list utxo :=
  eligible (req_addrs st r) (w_reserved st) (w_pool st) (w_utxos st).
Definition wf (st : wstate) : Prop := NoDup (map u_id (w_utxos st)).
(* facts that hold of every Go request by typing (amounts and sizes are unsigned) *)
Definition areq_wf (r : areq) : Prop :=
  0 <= a_userfee r /\ Forall (fun p => 0 <= snd p) (a_outs r) /\ 0 <= a_payload r.

Lemma sum_outs_app l1 l2 : sum_outs (l1 ++ l2) = sum_outs l1 + sum_outs l2.
Proof. induction l1 as [|x t IH]; simpl; [reflexivity|]. rewrite IH. lia. Qed.

Lemma sum_outs_nonneg l : Forall (fun p : dest * Z => 0 <= snd p) l -> 0 <= sum_outs l.
Proof. induction 1; simpl; lia. Qed.

Lemma init_target_pos uf : 0 <= uf -> 0 < init_target uf /\ uf <= init_target uf.
Proof.
  intros H. unfold init_target. pose proof min_relay_ge.
  destruct (uf =? 0) eqn:E; [apply Z.eqb_eq in E|apply Z.eqb_neq in E]; lia.
Qed.

Lemma inner_change_ok n : forall cands out target adj s c,
  inner n cands out target adj false = Ok (s, Some c) -> False.
Proof.
  induction n as [|n IHn]; intros cands out target adj s c Hi; [discriminate|].
  rewrite inner_unfold in Hi.
  destruct (max_amount <? target + out); [discriminate|].
  destruct (max_amount <? target + out + adj); [discriminate|].
  destruct (find_eligible _ cands) as [[[s1 found] ov]|e|]; try discriminate.
  destruct (found <? _); [destruct ov; discriminate|].
  destruct (_ =? 0); [discriminate|].
  destruct (_ <? min_relay); [now apply IHn in Hi|discriminate].
Qed.

Lemma outer_change_ok fuel : forall cands out nout payload target sel c fee,
  outer fuel cands out nout payload target false = Ok (sel, Some c, fee) -> False.
Proof.
  induction fuel as [|fu IH]; intros cands out nout payload target sel c fee H; [discriminate|].
  rewrite outer_unfold in H.
  destruct (inner inner_fuel cands out target 0 false) as [[s c']|e|] eqn:Hi; try discriminate.
  destruct (required_fee _ <=? target).
  - injection H as _ -> _. now apply inner_change_ok in Hi.
  - now apply IH in H.
Qed.

Lemma auto_select_inv fuel st r sel ch fee :
  auto_select fuel st r = Ok (sel, ch, fee) ->
  a_outs_ok r = true /\ Forall (fun p => snd p <> 0) (a_outs r) /\ sum_outs (a_outs r) <= max_amount /\
  (match a_from r with Some f => In f (w_addrs st) | None => w_addrs st <> [] end) /\
  (forall c, ch = Some c -> match a_change r with Some _ => a_change_ok r = true | None => True end) /\
  outer fuel (elig st r) (sum_outs (a_outs r)) (Z.of_nat (length (a_outs r))) (a_payload r)
        (init_target (a_userfee r))
        (match a_change r with Some _ => a_change_ok r | None => true end) = Ok (sel, ch, fee).
Proof.
  unfold auto_select, elig, req_addrs, from_addrs.
  assert (Hex : existsb (fun p : dest * Z => snd p =? 0) (a_outs r) = false ->
                Forall (fun p => snd p <> 0) (a_outs r)).
  { intros Ho2. rewrite Forall_forall. intros p Hp Hz.
    assert (existsb (fun p : dest * Z => snd p =? 0) (a_outs r) = true); [|congruence].
    apply existsb_exists. exists p. split; auto. now apply Z.eqb_eq. }
  assert (Hch : forall cands, outer fuel cands (sum_outs (a_outs r)) (Z.of_nat (length (a_outs r))) (a_payload r)
        (init_target (a_userfee r)) (match a_change r with Some _ => a_change_ok r | None => true end) = Ok (sel, ch, fee) ->
        forall c, ch = Some c -> match a_change r with Some _ => a_change_ok r = true | None => True end).
  { intros cands H c ->. destruct (a_change r); auto. destruct (a_change_ok r); auto.
    exfalso. eapply outer_change_ok; exact H. }
  destruct (a_from r) as [f|] eqn:Ef.
  - destruct (memZ f (w_addrs st)) eqn:Hm; [|discriminate]. apply memZ_In in Hm.
    destruct (negb (a_outs_ok r) || existsb (fun p => snd p =? 0) (a_outs r))%bool eqn:Ho; [discriminate|].
    apply orb_false_iff in Ho. destruct Ho as [Ho1 Ho2]. apply negb_false_iff in Ho1.
    destruct (max_amount <? sum_outs (a_outs r)) eqn:Hx; [discriminate|]. apply Z.ltb_ge in Hx.
    intros H. repeat split; auto. eapply Hch; exact H.
  - destruct (w_addrs st) as [|a0 at0] eqn:Ea; [discriminate|].
    destruct (negb (a_outs_ok r) || existsb (fun p => snd p =? 0) (a_outs r))%bool eqn:Ho; [discriminate|].
    apply orb_false_iff in Ho. destruct Ho as [Ho1 Ho2]. apply negb_false_iff in Ho1.
    destruct (max_amount <? sum_outs (a_outs r)) eqn:Hx; [discriminate|]. apply Z.ltb_ge in Hx.
    intros H. repeat split; auto; try discriminate. eapply Hch; exact H.
Qed.

(* everything the fee loop guarantees about a successful automatic selection *)
Lemma auto_select_ok fuel st r sel ch fee :
  areq_wf r -> auto_select fuel st r = Ok (sel, ch, fee) ->
  subperm sel (elig st r) /\
  usum sel = sum_outs (a_outs r) + change_val ch + fee /\
  (forall c, ch = Some c -> min_relay <= c) /\
  init_target (a_userfee r) <= fee /\
  required_fee (estimate_signed_size (Z.of_nat (length sel)) (Z.of_nat (length (a_outs r)) + nch ch) (a_payload r)) <= fee /\
  fee <= Z.max (init_target (a_userfee r))
               (required_fee (size_cap (Z.of_nat (length (elig st r))) (Z.of_nat (length (a_outs r))) (a_payload r))) /\
  (length sel <= sel_k)%nat.
Proof.
  intros [Hu [Ho Hp]] H. apply auto_select_inv in H. destruct H as [_ [_ [_ [_ [_ H]]]]].
  apply outer_ok in H; try lia.
  destruct H as [Hs [Hsum [Hch [Ht [Hr [Hcap [Hk _]]]]]]]. repeat split; auto. lia.
Qed.

Lemma auto_create_inv fuel st r t st' :
  auto_create_fuel fuel st r = Ok (t, st') ->
  exists sel ch fee, auto_select fuel st r = Ok (sel, ch, fee) /\ t = build_tx r sel ch fee /\
    st' = mkW (w_utxos st) (w_addrs st) (w_reserved st ++ map u_id sel) (w_pool st).
Proof.
  unfold auto_create_fuel. destruct (auto_select fuel st r) as [[[sel ch] fee]|e|]; try discriminate.
  intros H. injection H as <- <-. now exists sel, ch, fee.
Qed.

Lemma build_tx_ins r sel ch fee : map fst (t_ins (build_tx r sel ch fee)) = map u_id sel.
Proof. unfold build_tx. cbn [t_ins]. rewrite map_map. reflexivity. Qed.

Lemma build_tx_sum r sel ch fee :
  sum_outs (t_outs (build_tx r sel ch fee)) = sum_outs (a_outs r) + change_val ch.
Proof. unfold build_tx. cbn [t_outs]. rewrite sum_outs_app. destruct ch; simpl; lia. Qed.

(* C02_conservation: the inputs are coins of the wallet and their value is exactly outputs + reported fee *)
Theorem conservation st r t st' : areq_wf r ->
  auto_create st r = Ok (t, st') ->
  exists sel, map fst (t_ins t) = map u_id sel /\ incl sel (w_utxos st) /\
              usum sel = sum_outs (t_outs t) + t_fee t.
Proof.
  intros Hwf H. apply auto_create_inv in H. destruct H as [sel [ch [fee [Hs [-> _]]]]].
  apply auto_select_ok in Hs; auto. destruct Hs as [Hsub [Hsum _]].
  exists sel. split; [apply build_tx_ins|]. split.
  - apply subperm_incl. eapply subperm_trans; [exact Hsub|apply eligible_subperm].
  - rewrite build_tx_sum. unfold build_tx. cbn [t_fee]. lia.
Qed.

(* C02_inputs_eligible: every input is an eligible coin; no output is spent twice *)
Theorem inputs_eligible st r t st' : areq_wf r ->
  auto_create st r = Ok (t, st') ->
  exists sel, map fst (t_ins t) = map u_id sel /\
    (forall u, In u sel -> In u (w_utxos st) /\ is_eligible (req_addrs st r) (w_reserved st) (w_pool st) u) /\
    (wf st -> NoDup (map fst (t_ins t))) /\
    (length sel <= sel_k)%nat.
Proof.
  intros Hwf H. apply auto_create_inv in H. destruct H as [sel [ch [fee [Hs [-> _]]]]].
  apply auto_select_ok in Hs; auto. destruct Hs as [Hsub [_ [_ [_ [_ [_ Hk]]]]]].
  exists sel. split; [apply build_tx_ins|]. split; [|split; auto].
  - intros u Hu. apply (subperm_incl _ _ _ Hsub) in Hu. now apply eligible_spec in Hu.
  - intros Hn. rewrite build_tx_ins. eapply subperm_NoDup_map; [|exact Hn].
    eapply subperm_trans; [exact Hsub|apply eligible_subperm].
Qed.

(* C02_outputs_exact: the requested outputs, in order, then at most one change output, never below
   the relay minimum, paid to the requested change address or to the address of the first input *)
Theorem outputs_exact st r t st' : areq_wf r ->
  auto_create st r = Ok (t, st') ->
  exists change, t_outs t = a_outs r ++ change /\
    (change = [] \/
     exists d c, change = [(d, c)] /\ min_relay <= c /\
       match a_change r with
       | Some a => d = std_dest a
       | None => exists i s u, hd_error (t_ins t) = Some (i, s) /\ In u (w_utxos st) /\ u_id u = i /\ d = std_dest (u_sh u)
       end).
Proof.
  intros Hwf H. apply auto_create_inv in H. destruct H as [sel [ch [fee [Hs [-> _]]]]].
  pose proof Hs as Hs0. apply auto_select_ok in Hs; auto.
  destruct Hs as [Hsub [Hsum [Hch [Hfee _]]]].
  unfold build_tx. cbn [t_outs t_ins]. destruct ch as [c|].
  - exists [(change_dest r sel, c)]. split; auto. right. exists (change_dest r sel), c.
    split; auto. split; [now apply Hch|]. unfold change_dest.
    destruct (a_change r) as [a|]; auto.
    destruct sel as [|u sel'].
    + exfalso. simpl in Hsum. destruct Hwf as [Hu [Ho _]].
      pose proof (sum_outs_nonneg _ Ho). pose proof (Hch c eq_refl). pose proof min_relay_ge.
      pose proof (init_target_pos _ Hu). lia.
    + exists (u_id u), (std_seq (a_locktime r)), u. simpl. repeat split; auto.
      assert (Hin : In u (elig st r)) by (apply (subperm_incl _ _ _ Hsub); now left).
      apply eligible_spec in Hin. tauto.
  - exists []. split; auto.
Qed.

(* C02_fee_bounds *)
Theorem fee_bounds st r t st' : areq_wf r ->
  auto_create st r = Ok (t, st') ->
  a_userfee r <= t_fee t /\
  (a_userfee r = 0 -> min_relay <= t_fee t) /\
  required_fee (estimate_signed_size (Z.of_nat (length (t_ins t))) (Z.of_nat (length (t_outs t))) (a_payload r)) <= t_fee t /\
  t_fee t <= fee_cap (a_userfee r) (Z.of_nat (length (elig st r))) (Z.of_nat (length (a_outs r))) (a_payload r) /\
  (size_cap (Z.of_nat (length (elig st r))) (Z.of_nat (length (a_outs r))) (a_payload r) <= max_standard_tx_size ->
   t_fee t <= Z.max (init_target (a_userfee r)) (required_fee max_standard_tx_size)).
Proof.
  intros Hwf H. apply auto_create_inv in H. destruct H as [sel [ch [fee [Hs [-> _]]]]].
  apply auto_select_ok in Hs; auto. destruct Hs as [_ [_ [_ [Ht [Hr [Hcap _]]]]]].
  destruct Hwf as [Hu [Ho Hp]]. pose proof (init_target_pos _ Hu) as [Hi1 Hi2].
  unfold build_tx. cbn [t_fee t_ins t_outs]. rewrite map_length, app_length.
  replace (Z.of_nat (length (a_outs r) + length (match ch with Some c => [(change_dest r sel, c)] | None => [] end)))
    with (Z.of_nat (length (a_outs r)) + nch ch) by (destruct ch; simpl; lia).
  set (cap := size_cap _ _ _) in *.
  assert (Hcpos : 0 < cap).
  { unfold cap, size_cap. apply estimate_pos; lia. }
  repeat split; auto; try lia.
  - intros H0. unfold init_target in Ht. rewrite H0 in Ht. simpl in Ht. exact Ht.
  - unfold fee_cap. fold cap.
    assert (required_fee cap <= required_fee (Z.max max_standard_tx_size cap)) by (apply required_fee_mono; lia).
    lia.
  - intros Hstd. assert (required_fee cap <= required_fee max_standard_tx_size) by (apply required_fee_mono; lia). lia.
Qed.

(* C02_terminates: the fee loop ends within 2*(K+3) rounds *)
Theorem terminates fuel st r : areq_wf r -> (outer_fuel <= fuel)%nat ->
  auto_select fuel st r <> Err EOutOfFuel.
Proof.
  intros [Hu [Ho Hp]] Hf. unfold auto_select.
  destruct (from_addrs st (a_from r)) as [addrs|e|] eqn:Ha; try discriminate.
  - destruct (negb (a_outs_ok r) || _)%bool; [discriminate|].
    destruct (max_amount <? _); [discriminate|].
    apply outer_terminates; auto; lia.
  - unfold from_addrs in Ha. destruct (a_from r); [destruct (memZ _ _)|destruct (w_addrs st)];
      try discriminate; injection Ha as <-; discriminate.
Qed.

Theorem terminates_create st r : areq_wf r -> auto_create st r <> Err EOutOfFuel.
Proof.
  intros Hwf. unfold auto_create, auto_create_fuel.
  pose proof (terminates outer_fuel st r Hwf (le_n _)) as H.
  destruct (auto_select outer_fuel st r) as [[[sel ch] fee]|e|]; try discriminate.
  intros He. injection He as ->. now apply H.
Qed.

(* ================================================================== part 6: funds suffice / do not suffice *)

Lemma find_eligible_enough w cands :
  pos_amounts cands -> usum cands <= max_amount -> 0 < w ->
  w <= usum (top_k u_amt sel_k w cands) ->
  exists sel ov, find_eligible w cands = Ok (sel, usum sel, ov) /\ w <= usum sel.
Proof.
  intros Hpos Hmax Hw Hsum. unfold find_eligible.
  destruct (w =? 0) eqn:E; [apply Z.eqb_eq in E; lia|].
  pose proof (top_k_subperm _ u_amt sel_k w cands) as Hsub.
  destruct (opt_outputs u_amt max_amount w (top_k u_amt sel_k w cands)) as [sel|] eqn:Ho.
  - exists sel. eexists. split; [reflexivity|]. eapply opt_outputs_sum; eauto.
  - exfalso. revert Ho. apply opt_outputs_some.
    + eapply Forall_subperm; [exact Hsub|]. now apply pos_nonneg.
    + pose proof (subperm_sum _ u_amt _ _ Hsub (pos_nonneg _ Hpos)). lia.
Qed.

Lemma find_eligible_short w cands sel found ov :
  0 < w -> find_eligible w cands = Ok (sel, found, ov) -> found < w ->
  usum (top_k u_amt sel_k w cands) < w.
Proof.
  intros Hw H Hlt. unfold find_eligible in H. destruct (w =? 0); [discriminate|].
  destruct (opt_outputs u_amt max_amount w _) as [s|] eqn:Ho; [|discriminate].
  injection H as <- <- _.
  destruct (Z_lt_le_dec (usum (top_k u_amt sel_k w cands)) w) as [|Hge]; auto.
  pose proof (opt_outputs_sum _ u_amt _ _ _ _ Hw Ho Hge). lia.
Qed.

(* with enough funds for every amount the loop can ask for, the inner loop succeeds *)
Lemma inner_enough cands out target :
  pos_amounts cands -> usum cands <= max_amount -> 0 < target -> 0 <= out ->
  target + out + min_relay <= max_amount ->
  (forall w, 0 < w <= target + out + min_relay -> w <= usum (top_k u_amt sel_k w cands)) ->
  exists sel ch, inner inner_fuel cands out target 0 true = Ok (sel, ch).
Proof.
  intros Hpos Hmax Ht Ho Hcap Hf. pose proof min_relay_ge as Hm.
  unfold inner_fuel. rewrite inner_unfold.
  destruct (max_amount <? target + out) eqn:E1; [apply Z.ltb_lt in E1; lia|].
  destruct (max_amount <? target + out + 0) eqn:E2; [apply Z.ltb_lt in E2; lia|].
  destruct (find_eligible_enough (target + out + 0) cands) as [sel [ov [Hfe Hge]]]; auto; try lia.
  { apply Hf. lia. }
  rewrite Hfe. destruct (usum sel <? target + out + 0) eqn:E3; [apply Z.ltb_lt in E3; lia|].
  destruct (usum sel - (target + out) =? 0); [eauto|].
  destruct (usum sel - (target + out) <? min_relay); [|eauto].
  rewrite inner_unfold. rewrite E1.
  destruct (max_amount <? target + out + min_relay) eqn:E4; [apply Z.ltb_lt in E4; lia|].
  destruct (find_eligible_enough (target + out + min_relay) cands) as [sel2 [ov2 [Hfe2 Hge2]]]; auto; try lia.
  { apply Hf. lia. }
  rewrite Hfe2. destruct (usum sel2 <? target + out + min_relay) eqn:E5; [apply Z.ltb_lt in E5; lia|].
  destruct (usum sel2 - (target + out) =? 0); [eauto|].
  destruct (usum sel2 - (target + out) <? min_relay) eqn:E6; [apply Z.ltb_lt in E6; lia|eauto].
Qed.

Lemma outer_enough f : forall cands out nout payload target fmax,
  pos_amounts cands -> usum cands <= max_amount -> 0 <= out -> 0 <= nout -> 0 <= payload ->
  0 < target <= fmax ->
  required_fee (size_cap (Z.of_nat (length cands)) nout payload) <= fmax ->
  fmax + out + min_relay <= max_amount ->
  (forall w, 0 < w <= fmax + out + min_relay -> w <= usum (top_k u_amt sel_k w cands)) ->
  (exists res, outer f cands out nout payload target true = Ok res) \/
  outer f cands out nout payload target true = Err EOutOfFuel.
Proof.
  induction f as [|f IH]; intros cands out nout payload target fmax Hpos Hmax Ho Hn Hp Ht Hreq Hcap Hf;
    [now right|].
  rewrite outer_unfold.
  destruct (inner_enough cands out target) as [sel [ch Hi]]; auto; try lia.
  { intros w Hw. apply Hf. lia. }
  rewrite Hi. destruct (required_fee _ <=? target); [left; eauto|].
  pose proof (inner_length _ _ _ _ _ _ _ _ Hi) as [Hl1 Hl2].
  pose proof (cand_size_le cands sel ch nout payload Hl1 Hl2) as Hsz.
  assert (Hpos' : 0 < estimate_signed_size (Z.of_nat (length sel)) (nout + nch ch) payload).
  { apply estimate_pos; try lia. destruct ch; simpl; lia. }
  apply (IH cands out nout payload _ fmax); auto. split.
  - now apply required_fee_pos.
  - pose proof (required_fee_mono _ _ Hpos' Hsz). lia.
Qed.

(* an insufficient-funds answer means that for one of the amounts the loop asked for, the coins the
   selector keeps do not reach it *)
Lemma inner_insufficient n : forall cands out target adj cok e,
  0 < target -> 0 <= out -> 0 <= adj <= min_relay ->
  inner n cands out target adj cok = Err e -> e = EInsufficient \/ e = EOverfull ->
  exists w, 0 < w <= target + out + min_relay /\ usum (top_k u_amt sel_k w cands) < w.
Proof.
  induction n as [|n IH]; intros cands out target adj cok e Ht Ho Ha H He.
  { simpl in H. injection H as <-. destruct He; discriminate. }
  rewrite inner_unfold in H.
  destruct (max_amount <? target + out); [injection H as <-; destruct He; discriminate|].
  destruct (max_amount <? target + out + adj); [injection H as <-; destruct He; discriminate|].
  destruct (find_eligible (target + out + adj) cands) as [[[s found] ov]|e'|] eqn:Hfe; try discriminate.
  - destruct (found <? target + out + adj) eqn:Hc.
    + apply Z.ltb_lt in Hc. exists (target + out + adj). split; [lia|].
      eapply find_eligible_short; eauto. lia.
    + destruct (found - (target + out) =? 0); [discriminate|].
      destruct (found - (target + out) <? min_relay).
      * apply IH in H; auto. pose proof min_relay_ge. lia.
      * destruct cok; [discriminate|]. injection H as <-. destruct He; discriminate.
  - injection H as <-. unfold find_eligible in Hfe. destruct (_ =? 0); [injection Hfe as <-; destruct He; discriminate|].
    destruct (opt_outputs _ _ _ _); [discriminate|]. injection Hfe as <-. destruct He; discriminate.
Qed.

Lemma outer_insufficient f : forall cands out nout payload target cok fmax e,
  0 <= out -> 0 <= nout -> 0 <= payload -> 0 < target <= fmax ->
  required_fee (size_cap (Z.of_nat (length cands)) nout payload) <= fmax ->
  outer f cands out nout payload target cok = Err e -> e = EInsufficient \/ e = EOverfull ->
  exists w, 0 < w <= fmax + out + min_relay /\ usum (top_k u_amt sel_k w cands) < w.
Proof.
  induction f as [|f IH]; intros cands out nout payload target cok fmax e Ho Hn Hp Ht Hreq H He.
  { simpl in H. injection H as <-. destruct He; discriminate. }
  rewrite outer_unfold in H.
  destruct (inner inner_fuel cands out target 0 cok) as [[sel ch]|e'|] eqn:Hi; try discriminate.
  - destruct (required_fee _ <=? target); [discriminate|].
    pose proof (inner_length _ _ _ _ _ _ _ _ Hi) as [Hl1 Hl2].
    pose proof (cand_size_le cands sel ch nout payload Hl1 Hl2) as Hsz.
    assert (Hpos' : 0 < estimate_signed_size (Z.of_nat (length sel)) (nout + nch ch) payload).
    { apply estimate_pos; try lia. destruct ch; simpl; lia. }
    eapply IH; [| | | |exact Hreq|exact H|exact He]; auto. split.
    + now apply required_fee_pos.
    + pose proof (required_fee_mono _ _ Hpos' Hsz). lia.
  - injection H as <-. apply inner_insufficient in Hi; auto; try lia.
    + destruct Hi as [w [Hw Hs]]. exists w. split; auto. lia.
    + pose proof min_relay_ge; lia.
Qed.

Definition fmax_of (st : wstate) (r : areq) : Z :=
  Z.max (init_target (a_userfee r))
        (required_fee (size_cap (Z.of_nat (length (elig st r))) (Z.of_nat (length (a_outs r))) (a_payload r))).

(* the request itself is acceptable: addresses decode, no zero amount, sender address in the wallet *)
Definition req_valid (st : wstate) (r : areq) : Prop :=
  a_outs_ok r = true /\ Forall (fun p => snd p <> 0) (a_outs r) /\
  match a_from r with Some f => In f (w_addrs st) | None => w_addrs st <> [] end /\
  match a_change r with Some _ => a_change_ok r = true | None => True end.

Lemma from_addrs_ok st r :
  match a_from r with Some f => In f (w_addrs st) | None => w_addrs st <> [] end ->
  from_addrs st (a_from r) = Ok (req_addrs st r).
Proof.
  unfold from_addrs, req_addrs. destruct (a_from r) as [f|].
  - intros H. apply memZ_In in H. now rewrite H.
  - destruct (w_addrs st); [congruence|reflexivity].
Qed.

Lemma existsb_zero_false (l : list (dest * Z)) :
  Forall (fun p => snd p <> 0) l -> existsb (fun p => snd p =? 0) l = false.
Proof.
  induction 1 as [|p t Hp Ht IH]; simpl; auto. rewrite IH. apply Z.eqb_neq in Hp. now rewrite Hp.
Qed.

Lemma auto_select_unfold fuel st r : req_valid st r -> sum_outs (a_outs r) <= max_amount ->
  auto_select fuel st r =
  outer fuel (elig st r) (sum_outs (a_outs r)) (Z.of_nat (length (a_outs r))) (a_payload r)
        (init_target (a_userfee r)) true.
Proof.
  intros [H1 [H2 [H3 H4]]] Hm. unfold auto_select. rewrite (from_addrs_ok st r H3).
  rewrite H1, (existsb_zero_false _ H2). cbn [negb orb].
  destruct (max_amount <? sum_outs (a_outs r)) eqn:E; [apply Z.ltb_lt in E; lia|].
  unfold elig. destruct (a_change r); [rewrite H4|]; reflexivity.
Qed.

(* C02_sufficient_succeeds, in terms of what the selector keeps *)
Theorem sufficient_topk st r : areq_wf r -> req_valid st r ->
  usum (elig st r) <= max_amount ->
  fmax_of st r + sum_outs (a_outs r) + min_relay <= max_amount ->
  (forall w, 0 < w <= fmax_of st r + sum_outs (a_outs r) + min_relay ->
             w <= usum (top_k u_amt sel_k w (elig st r))) ->
  exists t st', auto_create st r = Ok (t, st').
Proof.
  intros Hwf Hv Htot Hcap Hf. pose proof Hwf as [Hu [Ho Hp]].
  pose proof (sum_outs_nonneg _ Ho) as Hon. pose proof (init_target_pos _ Hu) as [Hi1 Hi2].
  pose proof min_relay_ge as Hm.
  assert (Hmax : sum_outs (a_outs r) <= max_amount) by (unfold fmax_of in Hcap; lia).
  unfold auto_create, auto_create_fuel. rewrite (auto_select_unfold _ _ _ Hv Hmax).
  destruct (outer_enough outer_fuel (elig st r) (sum_outs (a_outs r)) (Z.of_nat (length (a_outs r)))
              (a_payload r) (init_target (a_userfee r)) (fmax_of st r)) as [[[[sel ch] fee] Hr]|Hoof]; auto; try lia.
  - apply eligible_pos.
  - unfold fmax_of. lia.
  - unfold fmax_of. lia.
  - rewrite Hr. eauto.
  - exfalso. revert Hoof. apply outer_terminates; auto; lia.
Qed.

(* C02_insufficient_fails, in terms of what the selector keeps *)
Theorem insufficient_topk st r e : areq_wf r ->
  auto_create st r = Err e -> e = EInsufficient \/ e = EOverfull ->
  exists w, 0 < w <= fmax_of st r + sum_outs (a_outs r) + min_relay /\
            usum (top_k u_amt sel_k w (elig st r)) < w.
Proof.
  intros Hwf H He. pose proof Hwf as [Hu [Ho Hp]].
  pose proof (sum_outs_nonneg _ Ho) as Hon. pose proof (init_target_pos _ Hu) as [Hi1 Hi2].
  unfold auto_create, auto_create_fuel in H.
  destruct (auto_select outer_fuel st r) as [[[sel ch] fee]|e'|] eqn:Hs; try discriminate.
  injection H as ->. unfold auto_select in Hs.
  destruct (from_addrs st (a_from r)) as [addrs|e''|] eqn:Ha.
  - assert (addrs = req_addrs st r) as ->.
    { unfold from_addrs, req_addrs in *. destruct (a_from r); [destruct (memZ _ _)|destruct (w_addrs st)];
        try discriminate; now injection Ha as <-. }
    destruct (negb (a_outs_ok r) || _)%bool; [injection Hs as <-; destruct He; discriminate|].
    destruct (max_amount <? _); [injection Hs as <-; destruct He; discriminate|].
    eapply outer_insufficient in Hs; eauto; try lia.
    + unfold fmax_of. lia.
    + unfold fmax_of, elig. lia.
  - unfold from_addrs in Ha. injection Hs as <-.
    destruct (a_from r); [destruct (memZ _ _)|destruct (w_addrs st)]; try discriminate;
      injection Ha as <-; destruct He; discriminate.
  - discriminate.
Qed.

(* ================================================================== part 7: reservation *)

Lemma auto_create_reserved st r t st' : areq_wf r ->
  auto_create st r = Ok (t, st') ->
  (forall id, In id (map fst (t_ins t)) -> ~ In id (w_reserved st)) /\
  w_reserved st' = w_reserved st ++ map fst (t_ins t).
Proof.
  intros Hwf H. pose proof (inputs_eligible st r t st' Hwf H) as [sel [Hids [Hel _]]].
  apply auto_create_inv in H. destruct H as [sel' [ch [fee [_ [Ht ->]]]]].
  split.
  - intros id Hid. rewrite Hids in Hid. apply in_map_iff in Hid. destruct Hid as [u [<- Hu]].
    apply Hel in Hu. destruct Hu as [_ Hu]. unfold is_eligible in Hu. tauto.
  - cbn [w_reserved]. subst t. now rewrite build_tx_ins.
Qed.

Lemma create_raw_reserved st r t st' :
  create_raw st r = Ok (t, st') -> w_reserved st' = w_reserved st ++ map fst (t_ins t).
Proof.
  unfold create_raw. destruct (create_raw_sel r) as [[t0 ids]|e|] eqn:Hs; try discriminate.
  intros H. injection H as <- <-. cbn [w_reserved]. f_equal.
  unfold create_raw_sel, create_raw_gen in Hs.
  repeat match type of Hs with
  | match ?x with _ => _ end = _ => destruct x eqn:?; try discriminate
  | (if ?x then _ else _) = _ => destruct x eqn:?; try discriminate
  | (let (_, _) := ?x in _) = _ => destruct x eqn:?
  end; injection Hs as <- <-; reflexivity.
Qed.

Definition creq_wf (c : creq) : Prop := match c with RAuto r => areq_wf r | RManual _ => True end.

Lemma create_reserved_grows st c t st' : creq_wf c ->
  create st c = Ok (t, st') -> w_reserved st' = w_reserved st ++ map fst (t_ins t).
Proof.
  destruct c as [r|r]; simpl; intros Hwf H.
  - now apply auto_create_reserved in H.
  - now apply create_raw_reserved in H.
Qed.

Lemma run_cons st c rest :
  exists x st2, run st (c :: rest) = x :: run st2 rest /\
    ((exists t, create st c = Ok (t, st2) /\ x = Ok t) \/
     (st2 = st /\ (forall t, x <> Ok t))).
Proof.
  simpl. destruct (create st c) as [[t st']|e|] eqn:E.
  - exists (Ok t), st'. split; auto. left. eauto.
  - exists (Err e), st. split; auto. right. split; auto. discriminate.
  - exists Panic, st. split; auto. right. split; auto. discriminate.
Qed.

(* an automatically built transaction never takes a coin that was reserved when the run started *)
Lemma run_avoids_reserved : forall rs st j r tj,
  Forall creq_wf rs ->
  nth_error rs j = Some (RAuto r) -> nth_error (run st rs) j = Some (Ok tj) ->
  forall id, In id (w_reserved st) -> ~ In id (map fst (t_ins tj)).
Proof.
  induction rs as [|c rest IH]; intros st j r tj Hwf Hr Hj id Hid; [destruct j; discriminate|].
  inversion Hwf as [|c' l' Hc Hrest]; subst.
  destruct (run_cons st c rest) as [x [st2 [Erun Hcase]]]. rewrite Erun in Hj.
  destruct j as [|j]; simpl in Hr, Hj.
  - injection Hr as ->. injection Hj as ->.
    destruct Hcase as [[t [Hc' Hx]]|[_ Hx]]; [|exfalso; now apply (Hx tj)].
    injection Hx as <-. simpl in Hc'. apply auto_create_reserved in Hc'; auto.
    intros Hin. now apply (proj1 Hc' id Hin).
  - apply (IH st2 j r tj); auto.
    destruct Hcase as [[t [Hc' _]]|[-> _]]; auto.
    rewrite (create_reserved_grows _ _ _ _ Hc Hc'). apply in_or_app. now left.
Qed.

(* C02_reservation: in a run of consecutive create calls (automatic or manual), an automatically
   built transaction shares no input with any transaction built before it *)
Theorem reservation : forall rs st i j r ti tj,
  Forall creq_wf rs -> (i < j)%nat ->
  nth_error (run st rs) i = Some (Ok ti) ->
  nth_error rs j = Some (RAuto r) -> nth_error (run st rs) j = Some (Ok tj) ->
  forall id, In id (map fst (t_ins ti)) -> ~ In id (map fst (t_ins tj)).
Proof.
  induction rs as [|c rest IH]; intros st i j r ti tj Hwf Hij Hi Hr Hj id Hid; [destruct j; discriminate|].
  inversion Hwf as [|c' l' Hc Hrest]; subst.
  destruct (run_cons st c rest) as [x [st2 [Erun Hcase]]]. rewrite Erun in Hi, Hj.
  destruct j as [|j]; [lia|]. simpl in Hr, Hj.
  destruct i as [|i]; simpl in Hi.
  - injection Hi as ->. destruct Hcase as [[t [Hc' Hx]]|[_ Hx]]; [|exfalso; now apply (Hx ti)].
    injection Hx as <-.
    apply (run_avoids_reserved rest st2 j r tj); auto.
    rewrite (create_reserved_grows _ _ _ _ Hc Hc'). apply in_or_app. now right.
  - apply (IH st2 i j r ti tj); auto. lia.
Qed.

(* ================================================================== part 8: explicit inputs *)

Definition ksum (ks : list kout) : Z := fold_right (fun k s => k_amt k + s) 0 ks.

Lemma construct_tx_in_ok dc lock : forall ins seen acc senders total tins snd' tot,
  construct_tx_in dc lock ins seen acc senders total = Ok (tins, snd', tot) ->
  exists ks, ins = map MOut ks /\
    Forall (fun k => k_parse k = true /\ k_owned k = true) ks /\
    map fst tins = map fst acc ++ map k_id ks /\ snd' = senders ++ map k_sh ks /\
    tot = total + ksum ks /\ length tins = (length acc + length ks)%nat /\
    (dc = true -> NoDup (map k_id ks) /\ forall id, In id (map k_id ks) -> ~ In id seen).
Proof.
  induction ins as [|i rest IH]; intros seen acc senders total tins snd' tot H; simpl in H.
  - injection H as <- <- <-. exists []. simpl. rewrite !app_nil_r. repeat split; auto; try lia.
    constructor.
  - destruct i as [| | |k]; try discriminate.
    destruct (dc && memZ (k_id k) seen)%bool eqn:Hd; [discriminate|].
    destruct (negb (k_parse k)) eqn:Hp; [discriminate|].
    destruct (negb (k_owned k)) eqn:Ho; [discriminate|].
    destruct (max_amount <? total + k_amt k); [discriminate|].
    apply IH in H. destruct H as [ks [E [Hf [Hids [Hs [Ht [Hl Hnd]]]]]]].
    exists (k :: ks). subst rest. apply negb_false_iff in Hp, Ho. repeat split; auto.
    + rewrite Hids, map_app, <- app_assoc. reflexivity.
    + rewrite Hs, <- app_assoc. reflexivity.
    + simpl. lia.
    + rewrite Hl, app_length. simpl. lia.
    + destruct (Hnd H) as [Hn Hs']. simpl. constructor; auto.
      intros Hin. apply (Hs' _ Hin). now left.
    + intros id Hid Hseen. destruct (Hnd H) as [Hn Hs']. subst dc. simpl in Hd.
      destruct Hid as [<-|Hid].
      * apply memZ_false in Hd. contradiction.
      * apply (Hs' _ Hid). now right.
Qed.

Lemma wrap64_id z : 0 <= z < 2 ^ 63 -> wrap64 z = z.
Proof.
  intros H. unfold wrap64. rewrite Z.mod_small; lia.
Qed.

Lemma sum_outs_map_std (na : list (Z * Z)) :
  sum_outs (map (fun p => (std_dest (fst p), snd p)) na) = sum_vals na.
Proof. induction na as [|p t IH]; simpl; [reflexivity|]. rewrite IH. reflexivity. Qed.

Definition reduce (sel : list Z) (each : Z) (p : Z * Z) : Z * Z :=
  if memZ (fst p) sel then (fst p, snd p - each) else p.

(* maybeSubtractFeeFromAmounts: the bearers pay ceil(fee/n) each; the fee actually charged is
   n*ceil(fee/n), at most n-1 above the required one; the int64 product does not wrap *)
Lemma msf_spec amounts sel fee na total :
  maybe_subtract_fee amounts sel fee = Ok (na, total) ->
  0 <= fee <= max_amount -> Z.of_nat (length sel) < 2 ^ 31 ->
  let n := Z.of_nat (length sel) in
  let each := if n =? 0 then 0 else (fee + n - 1) / n in
  let charged := if n =? 0 then fee else each * n in
  na = map (reduce sel each) amounts /\ total = charged + sum_vals na /\
  fee <= charged <= fee + Z.max 0 (n - 1) /\
  Forall (fun a => In a (map fst amounts)) sel.
Proof.
  unfold maybe_subtract_fee. intros H Hfee Hn.
  destruct (negb (forallb _ sel)) eqn:Hk; [discriminate|].
  apply negb_false_iff in Hk. rewrite forallb_forall in Hk.
  assert (Hkeys : Forall (fun a => In a (map fst amounts)) sel).
  { rewrite Forall_forall. intros a Ha. apply memZ_In. now apply Hk. }
  cbv zeta. destruct (Z.of_nat (length sel) =? 0) eqn:En.
  - destruct (max_amount <? fee + sum_vals amounts); [discriminate|]. injection H as <- <-.
    destruct sel; [|apply Z.eqb_eq in En; simpl length in En; lia].
    repeat split; auto; try lia.
    rewrite <- (map_id amounts) at 1. apply map_ext. intros p. unfold reduce. reflexivity.
  - apply Z.eqb_neq in En. set (n := Z.of_nat (length sel)) in *.
    assert (Hnpos : 0 < n) by (unfold n; lia).
    set (each := (fee + n - 1) / n) in *.
    assert (Heach : fee <= each * n <= fee + n - 1).
    { unfold each. pose proof (Z.div_mod (fee + n - 1) n ltac:(lia)) as Hd.
      pose proof (Z.mod_pos_bound (fee + n - 1) n Hnpos). nia. }
    assert (Hm : max_amount < 2 ^ 62).
    { unfold max_amount, MaxMass, MaxwellPerMass. lia. }
    rewrite wrap64_id in H by lia.
    destruct ((each <? 0) || (max_amount <? each))%bool; [discriminate|].
    destruct ((each * n <? 0) || (max_amount <? each * n))%bool; [discriminate|].
    destruct (existsb _ amounts); [discriminate|].
    destruct (max_amount <? _); [discriminate|]. injection H as <- <-.
    repeat split; auto; try lia.
Qed.

Lemma manual_fee_ok ins nout f : manual_fee ins nout = Ok f ->
  f = required_fee (estimate_signed_size (Z.of_nat (length ins)) nout 0) /\
  forallb (fun i => match i with MOut k => k_mined k | _ => false end) ins = true.
Proof.
  unfold manual_fee. destruct (forallb _ ins); [|discriminate]. intros H. injection H as <-. auto.
Qed.

Lemma required_fee_range s : 0 < s -> 0 <= required_fee s <= max_amount.
Proof.
  intros Hs. destruct (required_fee_char s Hs) as [E Hr]. rewrite E.
  pose proof max_amount_ge. pose proof min_relay_ge. lia.
Qed.

Definition mreq_wf (r : mreq) : Prop := Z.of_nat (length (m_subfee r)) < 2 ^ 31.

(* everything a successful manual creation guarantees *)
Theorem manual_ok dc r t ids : mreq_wf r ->
  create_raw_gen dc r = Ok (t, ids) ->
  exists ks change,
    m_ins r = map MOut ks /\ ids = map k_id ks /\ map fst (t_ins t) = map k_id ks /\
    (dc = true -> NoDup (map k_id ks)) /\ ks <> [] /\
    Forall (fun k => k_parse k = true /\ k_owned k = true /\ k_mined k = true) ks /\
    ksum ks = sum_outs (t_outs t) + t_fee t /\
    (let nsel := Z.of_nat (length (m_subfee r)) in
     let req := required_fee (estimate_signed_size (Z.of_nat (length (t_ins t))) (Z.of_nat (length (t_outs t))) 0) in
     let each := if nsel =? 0 then 0 else (req + nsel - 1) / nsel in
     req <= t_fee t <= req + Z.max 0 (nsel - 1) /\
     t_fee t = (if nsel =? 0 then req else each * nsel) /\
     t_outs t = map (fun p => (std_dest (fst p), snd p)) (map (reduce (m_subfee r) each) (m_amounts r)) ++ change /\
     (change = [] \/ exists c, c <> 0 /\
        change = [(std_dest (match m_change r with Some a => a | None => hd 0 (map k_sh ks) end), c)]) /\
     Forall (fun o => is_dust std_pk_len (snd o) = false) (t_outs t)).
Proof.
  intros Hwf H. unfold create_raw_gen in H.
  destruct (construct_tx_in dc (m_locktime r) (m_ins r) [] [] [] 0) as [[[tins senders] total_in]|e|] eqn:Hc;
    try discriminate.
  apply construct_tx_in_ok in Hc. destruct Hc as [ks [Eins [Hown [Hids [Hsnd [Htot [Hlen Hnd]]]]]]].
  simpl in Hids, Hsnd, Htot, Hlen.
  destruct senders as [|s0 srest] eqn:Esend; [discriminate|]. rewrite <- Esend in *.
  assert (Hksne : ks <> []).
  { intros ->. simpl in Hsnd. congruence. }
  assert (Hndk : dc = true -> NoDup (map k_id ks)) by (intros Hdc; now destruct (Hnd Hdc)).
  set (caddr := match m_change r with Some c => c | None => s0 end) in *.
  set (caddr_ok := match m_change r with Some _ => m_change_ok r | None => true end) in *.
  assert (Ecaddr : caddr = match m_change r with Some a => a | None => hd 0 (map k_sh ks) end).
  { unfold caddr. destruct (m_change r); auto. rewrite <- Hsnd, Esend. reflexivity. }
  destruct (manual_fee (m_ins r) (Z.of_nat (length (m_amounts r)))) as [fee0|e|] eqn:Hf0; try discriminate.
  apply manual_fee_ok in Hf0. destruct Hf0 as [Ef0 Hmined].
  assert (Hks : Forall (fun k => k_parse k = true /\ k_owned k = true /\ k_mined k = true) ks).
  { rewrite Eins in Hmined. rewrite forallb_forall in Hmined. rewrite Forall_forall in *.
    intros k Hk. destruct (Hown k Hk). repeat split; auto.
    apply (Hmined (MOut k)). now apply in_map. }
  assert (Hnin : Z.of_nat (length (m_ins r)) = Z.of_nat (length tins)).
  { rewrite Eins, map_length. lia. }
  destruct (maybe_subtract_fee (m_amounts r) (m_subfee r) fee0) as [[na0 tot0]|e|] eqn:Hm0; try discriminate.
  destruct (total_in <? tot0) eqn:Hlt0; [discriminate|]. apply Z.ltb_ge in Hlt0.
  assert (Hfin : forall na change fee charged,
    maybe_subtract_fee (m_amounts r) (m_subfee r) fee = Ok (na, charged + sum_vals na) ->
    total_in = charged + sum_vals na + change ->
    (if negb (m_amounts_ok r) then Err EInvalid
     else if (negb (change =? 0) && negb caddr_ok)%bool then Err EInvalid
     else if existsb (fun o : dest * Z => is_dust std_pk_len (snd o))
               (map (fun p => (std_dest (fst p), snd p)) na ++ (if change =? 0 then [] else [(std_dest caddr, change)]))
          then Err EDust
          else if max_amount <? sum_outs (map (fun p => (std_dest (fst p), snd p)) na ++ (if change =? 0 then [] else [(std_dest caddr, change)]))
               then Err EOther
               else Ok ({| t_ins := tins; t_outs := map (fun p => (std_dest (fst p), snd p)) na ++ (if change =? 0 then [] else [(std_dest caddr, change)]);
                           t_fee := total_in - sum_outs (map (fun p => (std_dest (fst p), snd p)) na ++ (if change =? 0 then [] else [(std_dest caddr, change)])) |},
                        map fst tins)) = Ok (t, ids) ->
    t_ins t = tins /\ ids = map fst tins /\
    t_outs t = map (fun p => (std_dest (fst p), snd p)) na ++ (if change =? 0 then [] else [(std_dest caddr, change)]) /\
    t_fee t = charged /\
    Forall (fun o => is_dust std_pk_len (snd o) = false) (t_outs t)).
  { intros na change fee charged _ Hbal Hr. clear H Hm0.
    destruct (negb (m_amounts_ok r)); [discriminate|].
    destruct (negb (change =? 0) && negb caddr_ok)%bool; [discriminate|].
    destruct (existsb _ _) eqn:Hd; [discriminate|].
    destruct (max_amount <? _); [discriminate|]. injection Hr as <- <-. cbn [t_ins t_outs t_fee].
    repeat split; auto.
    - rewrite sum_outs_app, sum_outs_map_std. destruct (change =? 0) eqn:Ez; simpl.
      + apply Z.eqb_eq in Ez. lia.
      + lia.
    - rewrite Forall_forall. intros o Ho.
      destruct (is_dust std_pk_len (snd o)) eqn:Ed; auto.
      assert (existsb (fun o : dest * Z => is_dust std_pk_len (snd o))
               (map (fun p => (std_dest (fst p), snd p)) na ++ (if change =? 0 then [] else [(std_dest caddr, change)])) = true); [|congruence].
      apply existsb_exists. exists o. auto. }
  assert (Hpos : forall n, 0 <= n -> 0 < estimate_signed_size (Z.of_nat (length (m_ins r))) n 0).
  { intros n Hn. apply estimate_pos; lia. }
  destruct (total_in - tot0 =? 0) eqn:Ez.
  - (* no change *)
    apply Z.eqb_eq in Ez.
    pose proof (msf_spec _ _ _ _ _ Hm0) as Hs. rewrite Ef0 in Hs.
    specialize (Hs (required_fee_range _ (Hpos (Z.of_nat (length (m_amounts r))) ltac:(lia))) Hwf). cbv zeta in Hs.
    destruct Hs as [Ena [Etot [Hch Hkeys]]].
    set (nsel := Z.of_nat (length (m_subfee r))) in *.
    set (req0 := required_fee (estimate_signed_size (Z.of_nat (length (m_ins r))) (Z.of_nat (length (m_amounts r))) 0)) in *.
    rewrite Etot in Hm0.
    destruct (Hfin na0 0 fee0 _ Hm0 ltac:(lia) H) as [Eti [Eids [Eouts [Efee Hdust]]]].
    exists ks, []. simpl in Eouts. rewrite app_nil_r in Eouts.
    assert (Hlo : Z.of_nat (length (t_outs t)) = Z.of_nat (length (m_amounts r))).
    { rewrite Eouts, Ena, !map_length. reflexivity. }
    rewrite Eti, Hlo, <- Hnin. fold req0. cbv zeta.
    repeat split; auto; try lia; try congruence.
    + rewrite Eouts, sum_outs_map_std. lia.
    + rewrite Eouts, app_nil_r, Ena. reflexivity.
  - (* change *)
    apply Z.eqb_neq in Ez.
    destruct (manual_fee (m_ins r) (Z.of_nat (length (m_amounts r)) + 1)) as [fee1|e|] eqn:Hf1; try discriminate.
    apply manual_fee_ok in Hf1. destruct Hf1 as [Ef1 _].
    destruct (maybe_subtract_fee (m_amounts r) (m_subfee r) fee1) as [[na1 tot1]|e|] eqn:Hm1; try discriminate.
    destruct (total_in <=? tot1) eqn:Hle1; [discriminate|]. apply Z.leb_gt in Hle1.
    pose proof (msf_spec _ _ _ _ _ Hm1) as Hs. rewrite Ef1 in Hs.
    specialize (Hs (required_fee_range _ (Hpos (Z.of_nat (length (m_amounts r)) + 1) ltac:(lia))) Hwf). cbv zeta in Hs.
    destruct Hs as [Ena [Etot [Hch Hkeys]]].
    set (nsel := Z.of_nat (length (m_subfee r))) in *.
    set (req1 := required_fee (estimate_signed_size (Z.of_nat (length (m_ins r))) (Z.of_nat (length (m_amounts r)) + 1) 0)) in *.
    rewrite Etot in Hm1.
    destruct (Hfin na1 (total_in - tot1) fee1 _ Hm1 ltac:(lia) H) as [Eti [Eids [Eouts [Efee Hdust]]]].
    assert (Enz : (total_in - tot1 =? 0) = false) by (apply Z.eqb_neq; lia).
    rewrite Enz in Eouts.
    exists ks, [(std_dest caddr, total_in - tot1)].
    assert (Hlo : Z.of_nat (length (t_outs t)) = Z.of_nat (length (m_amounts r)) + 1).
    { rewrite Eouts, Ena, app_length, !map_length. simpl. lia. }
    rewrite Eti, Hlo, <- Hnin. fold req1. cbv zeta.
    repeat split; auto; try lia; try congruence.
    + rewrite Eouts, sum_outs_app, sum_outs_map_std. simpl. lia.
    + right. exists (total_in - tot1). split; [lia|]. now rewrite Ecaddr.
Qed.

(* ================================================================== part 9: witnesses *)

(* C02_manual_no_dup was refuted for the code as first found: the same explicit input twice was
   accepted and counted twice — a wallet owning one coin of 100000 built a transaction paying
   150000 + 45540 change, fee 4460 (replayed on the real wallet: harness/cmd/c02 corpus scenario 1).
   Repaired in /repo by 3588e0f; [create_raw_sel_unfixed] is the model of the old code. *)
Definition dup_coin : kout := mkK 1 100000 1 0 0 6 true true true.
Definition dup_req : mreq := mkM [MOut dup_coin; MOut dup_coin] [(4, 150000)] true 0 None true [].
Definition dup_tx : otx := mkTx [(1, max_seq); (1, max_seq)] [(std_dest 4, 150000); (std_dest 1, 45540)] 4460.

(* C02_manual_no_dup, for the repaired code: no output is spent twice *)
Theorem manual_no_dup r t ids : mreq_wf r ->
  create_raw_sel r = Ok (t, ids) -> NoDup (map fst (t_ins t)).
Proof.
  intros Hwf H. destruct (manual_ok true r t ids Hwf H) as [ks [ch [_ [_ [Hids [Hnd _]]]]]].
  rewrite Hids. now apply Hnd.
Qed.

Lemma manual_no_dup_refuted :
  exists r t ids, mreq_wf r /\ create_raw_sel_unfixed r = Ok (t, ids) /\ ~ NoDup (map fst (t_ins t)) /\
    create_raw_sel r = Err EInvalid /\
    (* the only coin involved is worth less than what the transaction pays out *)
    (forall k, In (MOut k) (m_ins r) -> k = dup_coin) /\ k_amt dup_coin < sum_outs (t_outs t).
Proof.
  exists dup_req, dup_tx, [1; 1]. split; [|split; [|split; [|split; [|split]]]].
  - unfold mreq_wf. simpl. lia.
  - vm_compute. reflexivity.
  - simpl. intros H. inversion H as [|x l Hn _]; subst. apply Hn. now left.
  - vm_compute. reflexivity.
  - intros k [H|[H|[]]]; now injection H as <-.
  - vm_compute. reflexivity.
Qed.

(* the sharp "succeeds iff funds suffice" is refuted: one mature coin of 100000, request 89999 with
   user fee 0. The loop asks for 99999, gets 100000, refuses the change of 1 (below the relay
   minimum) and asks for 109999: insufficient. Yet the transaction that gives the surplus to the
   fee satisfies every clause of the property. (Replayed on the real wallet: corpus scenario 0.) *)
Definition slack_st : wstate := mkW [mkU 1 100000 1 1 0 0 false false] [1] [] [].
Definition slack_req : areq := mkA [(std_dest 4, 89999)] true 0 0 None None true 0.
Definition slack_tx : otx := mkTx [(1, max_seq)] [(std_dest 4, 89999)] 10001.

Lemma exact_iff_refuted :
  exists st r t, areq_wf r /\ wf st /\ req_valid st r /\
    auto_create st r = Err EInsufficient /\
    auto_tx_check st r t = [] /\
    sum_outs (a_outs r) + init_target (a_userfee r) <= usum (elig st r) /\
    usum (elig st r) < sum_outs (a_outs r) + init_target (a_userfee r) + min_relay.
Proof.
  exists slack_st, slack_req, slack_tx.
  split; [|split; [|split; [|split; [|split; [|split]]]]].
  - unfold areq_wf. simpl. repeat split; try lia. repeat constructor. simpl. lia.
  - unfold wf. simpl. repeat constructor. intros [].
  - unfold req_valid. simpl. repeat split; auto; try discriminate. repeat constructor. simpl. lia.
  - vm_compute. reflexivity.
  - vm_compute. reflexivity.
  - vm_compute. discriminate.
  - vm_compute. reflexivity.
Qed.

(* non-vacuity: a creation that succeeds, with change, after one fee-loop round trip *)
Definition ex_st : wstate :=
  mkW [mkU 1 50000 1 3 0 0 false false; mkU 2 70000 2 3 0 0 false false; mkU 3 900000 1 1 4 0 false false;
       mkU 4 300000 1 9 3 1 false false; mkU 5 20000 2 5 0 0 false true] [1; 2] [] [].
Definition ex_req : areq := mkA [(std_dest 7, 60000); (std_dest 8, 30000)] true 1 0 None None true 0.
Example ex_auto_create :
  exists st', auto_create ex_st ex_req =
    Ok (mkTx [(2, max_seq); (1, max_seq)] [(std_dest 7, 60000); (std_dest 8, 30000); (std_dest 2, 24910)] 5090, st')
  /\ w_reserved st' = [2; 1] /\ auto_tx_check ex_st ex_req
       (mkTx [(2, max_seq); (1, max_seq)] [(std_dest 7, 60000); (std_dest 8, 30000); (std_dest 2, 24910)] 5090) = [].
Proof. eexists. split; [|split]; vm_compute; reflexivity. Qed.

(* ================================================================== part 10: the heap keeps the k largest *)

Section HeapProofs.
Variable A : Type.
Variable amt : A -> Z.
Notation sum := (sum_amt amt).

Lemma nth_error_upd_eq (l : list A) : forall i x, (i < length l)%nat -> nth_error (upd l i x) i = Some x.
Proof.
  induction l as [|h t IH]; intros [|i] x H; simpl in *; try lia; auto. apply IH. lia.
Qed.

Lemma nth_error_swap (b : list A) i j a c p :
  nth_error b i = Some a -> nth_error b j = Some c -> i <> j ->
  nth_error (swap b i j) p =
    if (p =? i)%nat then Some c else if (p =? j)%nat then Some a else nth_error b p.
Proof.
  intros Hi Hj Hij. unfold swap. rewrite Hi, Hj.
  assert (Hli : (i < length b)%nat) by (apply nth_error_Some; congruence).
  assert (Hlj : (j < length b)%nat) by (apply nth_error_Some; congruence).
  destruct (p =? i)%nat eqn:Epi.
  - apply Nat.eqb_eq in Epi. subst p. rewrite nth_error_upd_neq by auto. now apply nth_error_upd_eq.
  - apply Nat.eqb_neq in Epi. destruct (p =? j)%nat eqn:Epj.
    + apply Nat.eqb_eq in Epj. subst p. apply nth_error_upd_eq. now rewrite upd_length.
    + apply Nat.eqb_neq in Epj. rewrite !nth_error_upd_neq by auto. reflexivity.
Qed.

Lemma swap_length (b : list A) i j : length (swap b i j) = length b.
Proof. unfold swap. destruct (nth_error b i), (nth_error b j); auto. now rewrite !upd_length. Qed.

(* min-heap order at position p / from position lo on / everywhere but at cur *)
Definition ok_at (b : list A) (p : nat) : Prop :=
  forall c vp vc, (c = 2 * p + 1 \/ c = 2 * p + 2)%nat ->
    nth_error b p = Some vp -> nth_error b c = Some vc -> amt vp <= amt vc.
Definition heap_from (lo : nat) (b : list A) : Prop := forall p, (lo <= p)%nat -> ok_at b p.
Definition hx (lo cur : nat) (b : list A) : Prop :=
  (forall p, (lo <= p)%nat -> p <> cur -> ok_at b p) /\
  (forall pp c vpp vc, (lo <= pp)%nat -> (cur = 2 * pp + 1 \/ cur = 2 * pp + 2)%nat ->
     (c = 2 * cur + 1 \/ c = 2 * cur + 2)%nat ->
     nth_error b pp = Some vpp -> nth_error b c = Some vc -> amt vpp <= amt vc).

Lemma half_lt k cur : (cur < k / 2)%nat -> (2 * cur + 2 <= k)%nat.
Proof. intros H. pose proof (Nat.mul_div_le k 2 ltac:(lia)). lia. Qed.

Lemma half_ge k cur : ~ (cur < k / 2)%nat -> (k <= 2 * cur + 1)%nat.
Proof. intros H. pose proof (Nat.mul_succ_div_gt k 2 ltac:(lia)). lia. Qed.

Lemma adjust_length f k : forall (b : list A) cur, length (adjust amt f k b cur) = length b.
Proof. intros b cur. apply Permutation_length. apply adjust_perm. Qed.

(* sift-down restores the heap order *)
Lemma adjust_heap f : forall k (b : list A) cur lo,
  length b = k -> (lo <= cur)%nat -> hx lo cur b -> (k / 2 - cur < f)%nat ->
  heap_from lo (adjust amt f k b cur).
Proof.
  induction f as [|f IH]; intros k b cur lo Hlen Hlo [H1 H2] Hf; [lia|].
  cbn [adjust]. destruct (cur <? k / 2)%nat eqn:Ecur.
  2:{ apply Nat.ltb_ge in Ecur. assert (Hk : (k <= 2 * cur + 1)%nat) by (apply half_ge; lia).
      intros p Hp. destruct (Nat.eq_dec p cur) as [->|Hne]; [|now apply H1].
      intros c vp vc Hc _ Hvc. exfalso.
      assert ((c < length b)%nat) by (apply nth_error_Some; congruence). lia. }
  apply Nat.ltb_lt in Ecur. pose proof (half_lt _ _ Ecur) as Hk.
  destruct (nth_error b cur) as [vcur|] eqn:Ecv.
  2:{ apply nth_error_None in Ecv. lia. }
  destruct (nth_error b (2 * cur + 1)) as [v0|] eqn:E0.
  2:{ apply nth_error_None in E0. lia. }
  set (child := match nth_error b (2 * cur + 1 + 1) with
                | Some v1 => if ((2 * cur + 1 + 1 <? k)%nat && (amt v1 <? amt v0))%bool
                             then (2 * cur + 1 + 1)%nat else (2 * cur + 1)%nat
                | None => (2 * cur + 1)%nat end).
  (* the chosen child is a child, and not larger than either child *)
  assert (Hchild : (child = 2 * cur + 1 \/ child = 2 * cur + 2)%nat /\
            exists vch, nth_error b child = Some vch /\ amt vch <= amt v0 /\
              (forall v1, nth_error b (2 * cur + 2) = Some v1 -> amt vch <= amt v1)).
  { unfold child. replace (2 * cur + 1 + 1)%nat with (2 * cur + 2)%nat by lia.
    destruct (nth_error b (2 * cur + 2)) as [v1|] eqn:E1.
    - destruct ((2 * cur + 2 <? k)%nat && (amt v1 <? amt v0))%bool eqn:Eb.
      + apply andb_true_iff in Eb. destruct Eb as [_ Eb]. apply Z.ltb_lt in Eb.
        split; [now right|]. exists v1. repeat split; auto; try lia. intros v Hv. injection Hv as <-. lia.
      + split; [now left|]. exists v0. repeat split; auto; try lia. intros v Hv. injection Hv as <-.
        apply andb_false_iff in Eb. destruct Eb as [Eb|Eb].
        * apply Nat.ltb_ge in Eb. assert ((2 * cur + 2 < length b)%nat) by (apply nth_error_Some; congruence). lia.
        * apply Z.ltb_ge in Eb. lia.
    - split; [now left|]. exists v0. repeat split; auto; try lia. discriminate. }
  destruct Hchild as [Hcc [vch [Ech [Hv0 Hv1]]]]. rewrite Ech.
  assert (Hne : cur <> child) by lia.
  destruct (amt vch <? amt vcur) eqn:Elt.
  - apply Z.ltb_lt in Elt. apply IH.
    + now rewrite swap_length.
    + lia.
    + split.
      * intros p Hp Hpc c vp vc Hc. rewrite !(nth_error_swap b cur child vcur vch) by auto.
        destruct (Nat.eq_dec p cur) as [->|Hpcur].
        -- rewrite Nat.eqb_refl. intros Hvp. injection Hvp as <-.
           destruct (c =? cur)%nat eqn:Ecc; [apply Nat.eqb_eq in Ecc; lia|].
           destruct (c =? child)%nat eqn:Ecch.
           ++ intros Hvc. injection Hvc as <-. lia.
           ++ apply Nat.eqb_neq in Ecch. intros Hvc.
              destruct Hc as [->| ->]; destruct Hcc as [Hcc|Hcc]; try lia.
              ** rewrite E0 in Hvc. injection Hvc as <-. lia.
              ** now apply Hv1.
        -- destruct (p =? cur)%nat eqn:E1; [apply Nat.eqb_eq in E1; lia|].
           destruct (p =? child)%nat eqn:E2; [apply Nat.eqb_eq in E2; lia|].
           intros Hvp. destruct (c =? cur)%nat eqn:E3.
           ++ apply Nat.eqb_eq in E3. subst c. intros Hvc. injection Hvc as <-.
              apply (H2 p child vp vch); auto.
           ++ destruct (c =? child)%nat eqn:E4; [apply Nat.eqb_eq in E4; lia|].
              intros Hvc. apply (H1 p Hp Hpcur c vp vc); auto.
      * intros pp c vpp vc Hpp Hpar Hc. assert (pp = cur) by lia. subst pp.
        rewrite !(nth_error_swap b cur child vcur vch) by auto. rewrite Nat.eqb_refl.
        intros Hvpp. injection Hvpp as <-.
        destruct (c =? cur)%nat eqn:E3; [apply Nat.eqb_eq in E3; lia|].
        destruct (c =? child)%nat eqn:E4; [apply Nat.eqb_eq in E4; lia|].
        intros Hvc. apply (H1 child ltac:(lia) ltac:(lia) c vch vc); auto.
    + pose proof (half_lt _ _ Ecur). lia.
  - apply Z.ltb_ge in Elt. intros p Hp. destruct (Nat.eq_dec p cur) as [->|Hpc]; [|now apply H1].
    intros c vp vc Hc Hvp Hvc. rewrite Ecv in Hvp. injection Hvp as <-.
    destruct Hc as [->| ->].
    + rewrite E0 in Hvc. injection Hvc as <-. lia.
    + specialize (Hv1 _ Hvc). lia.
Qed.

Lemma heap_from_half k (b : list A) : length b = k -> heap_from (k / 2) b.
Proof.
  intros Hlen p Hp c vp vc Hc _ Hvc. exfalso.
  assert ((c < length b)%nat) by (apply nth_error_Some; congruence).
  assert (Hk : (k <= 2 * p + 1)%nat) by (apply half_ge; lia). lia.
Qed.

Lemma heapify_heap k (b : list A) : length b = k -> heap_from 0 (heapify amt k b).
Proof.
  intros Hlen. unfold heapify.
  assert (H : forall n b, (n <= k / 2)%nat -> length b = k -> heap_from n b ->
              heap_from 0 (fold_left (fun b i => adjust amt k k b i) (rev (seq 0 n)) b)).
  { induction n as [|n IH]; intros b0 Hn Hl Hh; [exact Hh|].
    rewrite seq_S, rev_app_distr. simpl. apply IH; try lia.
    - now rewrite adjust_length.
    - apply adjust_heap; auto; try lia.
      + split.
        * intros p Hp Hne. apply Hh. lia.
        * intros pp c vpp vc Hpp Hpar. lia.
      + pose proof (Nat.mul_div_le k 2 ltac:(lia)). lia. }
  apply H; auto. now apply heap_from_half.
Qed.

(* the root of a heap is a minimum *)
Lemma root_min (b : list A) r : heap_from 0 b -> nth_error b 0 = Some r ->
  forall j v, nth_error b j = Some v -> amt r <= amt v.
Proof.
  intros Hh Hr j. induction j as [j IH] using lt_wf_ind. intros v Hv.
  destruct j as [|j]; [rewrite Hr in Hv; injection Hv as <-; lia|].
  set (p := (j / 2)%nat).
  assert (Hj : (S j = 2 * p + 1 \/ S j = 2 * p + 2)%nat).
  { unfold p. pose proof (Nat.div_mod j 2 ltac:(lia)). pose proof (Nat.mod_upper_bound j 2 ltac:(lia)). lia. }
  assert (Hpl : (p < length b)%nat).
  { assert ((S j < length b)%nat) by (apply nth_error_Some; congruence). lia. }
  destruct (nth_error b p) as [vp|] eqn:Ep; [|apply nth_error_None in Ep; lia].
  assert (amt r <= amt vp) by (apply (IH p); auto; lia).
  assert (amt vp <= amt v) by (apply (Hh p ltac:(lia) (S j) vp v); auto). lia.
Qed.

(* ---- multiset invariant of the selector over the coins not above the required amount *)
Definition le_part (req : Z) (l : list A) : list A := filter (fun x => negb (req <? amt x)) l.

Definition topk_inv (k : nat) (req : Z) (s : tk A) (P : list A) : Prop :=
  exists rest, Permutation (tk_base s ++ rest) (le_part req P) /\
    ((length (tk_base s) < k)%nat -> rest = []) /\
    (length (tk_base s) = k -> heap_from 0 (tk_base s)) /\
    (forall x y, In x rest -> In y (tk_base s) -> amt x <= amt y) /\
    (length (tk_base s) <= k)%nat /\
    (tk_guard s = None -> le_part req P = P).

Lemma le_part_app req l1 l2 : le_part req (l1 ++ l2) = le_part req l1 ++ le_part req l2.
Proof. unfold le_part. apply filter_app. Qed.

Lemma submit_topk k req s x P : topk_inv k req s P -> topk_inv k req (submit amt k req s x) (P ++ [x]).
Proof.
  intros [rest [Hp [Hr [Hh [Hle [Hlen Hg]]]]]]. destruct s as [base guard].
  unfold topk_inv, submit in *. cbn [tk_base tk_guard] in *. rewrite le_part_app.
  assert (Hlx : le_part req [x] = if req <? amt x then [] else [x]).
  { unfold le_part. simpl. destruct (req <? amt x); reflexivity. }
  rewrite Hlx. clear Hlx.
  destruct (req <? amt x) eqn:Hx.
  - (* above the required amount: only the guard can change *)
    exists rest. rewrite app_nil_r.
    destruct guard as [g|]; [destruct (amt x <? amt g)|]; cbn [tk_base tk_guard];
      repeat split; auto; discriminate.
  - assert (HgP : guard = None -> le_part req P ++ [x] = P ++ [x]) by (intros E; now rewrite (Hg E)).
    destruct (length base <? k)%nat eqn:Hlt.
    + apply Nat.ltb_lt in Hlt. specialize (Hr Hlt). subst rest. rewrite app_nil_r in Hp.
      assert (Hlb : length (base ++ [x]) = S (length base)) by (rewrite app_length; simpl; lia).
      destruct (length (base ++ [x]) =? k)%nat eqn:Ek; cbn [tk_base tk_guard]; exists []; rewrite app_nil_r.
      * apply Nat.eqb_eq in Ek.
        assert (Hlh : length (heapify amt k (base ++ [x])) = k)
          by (rewrite (Permutation_length (heapify_perm _ amt k _)); exact Ek).
        repeat split; auto; try lia.
        -- eapply perm_trans; [apply heapify_perm|]. now apply Permutation_app_tail.
        -- intros _. now apply heapify_heap.
        -- intros x0 y [].
      * apply Nat.eqb_neq in Ek. repeat split; auto; try lia.
        -- now apply Permutation_app_tail.
        -- intros x0 y [].
    + apply Nat.ltb_ge in Hlt. assert (Hk : length base = k) by lia.
      destruct base as [|r t].
      * (* k = 0 *)
        cbn [tk_base tk_guard]. exists (rest ++ [x]). simpl in *.
        repeat split; auto; try lia; try (now apply Permutation_app_tail); try (intros x0 y _ []).
      * specialize (Hh Hk).
        assert (Hroot : forall y, In y (r :: t) -> amt r <= amt y).
        { intros y Hy. apply In_nth_error in Hy. destruct Hy as [j Hj].
          apply (root_min (r :: t) r Hh eq_refl j y Hj). }
        destruct ((0 <? k)%nat && (amt r <? amt x))%bool eqn:Eb; cbn [tk_base tk_guard].
        -- apply andb_true_iff in Eb. destruct Eb as [_ Eb]. apply Z.ltb_lt in Eb.
           assert (Hal : length (adjust amt k k (x :: t) 0) = k) by (rewrite adjust_length; simpl in *; lia).
           pose proof (adjust_perm _ amt k k (x :: t) 0) as Hap.
           exists (r :: rest). repeat split; auto; try lia.
           ++ eapply perm_trans; [apply Permutation_app_tail; exact Hap|].
              eapply perm_trans; [|apply Permutation_app_tail; exact Hp].
              eapply perm_trans; [|apply Permutation_cons_append].
              simpl. apply perm_skip. apply Permutation_sym. apply Permutation_middle.
           ++ intros _. apply adjust_heap; auto; try lia.
              ** split.
                 --- intros p _ Hp0 c vp vc Hc Hvp Hvc. destruct p as [|p]; [lia|].
                     assert (c = S (c - 1))%nat as Ec by lia. rewrite Ec in Hvc. simpl in Hvp, Hvc.
                     apply (Hh (S p) ltac:(lia) c vp vc); auto. rewrite Ec. simpl. exact Hvc.
                 --- intros pp c vpp vc _ Hpar. lia.
              ** pose proof (Nat.mul_div_le k 2 ltac:(lia)). simpl in Hk. lia.
           ++ intros x0 y Hx0 Hy. apply (Permutation_in _ Hap) in Hy.
              destruct Hx0 as [<-|Hx0].
              ** destruct Hy as [<-|Hy]; [lia|]. apply Hroot. now right.
              ** destruct Hy as [<-|Hy].
                 --- specialize (Hle x0 r Hx0 (or_introl eq_refl)). lia.
                 --- apply Hle; auto. now right.
        -- exists (rest ++ [x]). repeat split; auto; try lia.
           ++ rewrite app_assoc. now apply Permutation_app_tail.
           ++ intros x0 y Hx0 Hy. apply in_app_or in Hx0. destruct Hx0 as [Hx0|[<-|[]]]; [now apply Hle|].
              apply andb_false_iff in Eb. destruct Eb as [Eb|Eb].
              ** apply Nat.ltb_ge in Eb. simpl in Hk. lia.
              ** apply Z.ltb_ge in Eb. specialize (Hroot y Hy). lia.
Qed.

Lemma tk_run_topk k req l : topk_inv k req (tk_run amt k req l) l.
Proof.
  unfold tk_run.
  assert (H : forall l s P, topk_inv k req s P -> topk_inv k req (fold_left (submit amt k req) l s) (P ++ l)).
  { induction l0 as [|x t IH]; intros s P Hs; simpl; [now rewrite app_nil_r|].
    replace (P ++ x :: t) with ((P ++ [x]) ++ t) by (now rewrite <- app_assoc).
    apply IH. now apply submit_topk. }
  apply (H l (mkTk [] None) []). exists []. simpl. repeat split; auto; try lia;
    try (intros _ p _ c vp vc _ Hvp; destruct p; discriminate); try (intros x y []).
Qed.

(* a group of at most |base| coins never beats the heap: threshold argument *)
Lemma sum_amt_shift (f : A -> Z) m (l : list A) :
  sum_amt (fun x => f x - m) l = sum_amt f l - m * Z.of_nat (length l).
Proof. induction l as [|x t IH]; [simpl; lia|]. cbn [sum_amt fold_right length]. fold (sum_amt (fun x => f x - m) t). fold (sum_amt f t). rewrite IH. lia. Qed.

Lemma sum_amt_le (f g : A -> Z) (l : list A) : Forall (fun x => f x <= g x) l -> sum_amt f l <= sum_amt g l.
Proof. induction 1; simpl; [lia|]. fold (sum_amt f l). fold (sum_amt g l). lia. Qed.

Lemma sum_amt_eq0 (f : A -> Z) (l : list A) : Forall (fun x => f x = 0) l -> sum_amt f l = 0.
Proof. induction 1; simpl; [lia|]. fold (sum_amt f l). lia. Qed.

Lemma threshold_max (base rest T : list A) m :
  0 <= m -> (forall y, In y base -> m <= amt y) -> (forall x, In x rest -> amt x <= m) ->
  subperm T (base ++ rest) -> (length T <= length base)%nat -> sum T <= sum base.
Proof.
  intros Hm Hb Hr Hs Hl.
  set (pp := fun x => Z.max 0 (amt x - m)).
  assert (H1 : sum_amt (fun x => amt x - m) T <= sum_amt pp T).
  { apply sum_amt_le. rewrite Forall_forall. intros x _. unfold pp. lia. }
  assert (H2 : sum_amt pp T <= sum_amt pp (base ++ rest)).
  { apply subperm_sum; auto. rewrite Forall_forall. intros x _. unfold pp. lia. }
  assert (H3 : sum_amt pp rest = 0).
  { apply sum_amt_eq0. rewrite Forall_forall. intros x Hx. unfold pp. specialize (Hr x Hx). lia. }
  assert (H4 : sum_amt pp base <= sum_amt (fun x => amt x - m) base).
  { apply sum_amt_le. rewrite Forall_forall. intros x Hx. unfold pp. specialize (Hb x Hx). lia. }
  rewrite sum_amt_app in H2. rewrite !sum_amt_shift in *. nia.
Qed.

Lemma guard_bound k req l g : tk_guard (tk_run amt k req l) = Some g -> req < amt g.
Proof. intros H. now apply (proj2 (tk_run_bounds _ amt k req l)). Qed.

(* The selector's coins are at least as good as any k coins of the list: if some group of at
   most k coins reaches the required amount, so do the coins the selector keeps. *)
Theorem top_k_covers k req (l T : list A) :
  Forall (fun x => 0 <= amt x) l -> subperm T l -> (length T <= k)%nat ->
  req <= sum T -> req <= sum (top_k amt k req l).
Proof.
  intros Hpos Hs Hl Hreq.
  destruct (tk_run_topk k req l) as [rest [Hp [Hr [Hh [Hle [Hlen Hg]]]]]].
  pose proof (tk_run_inv _ amt k req l (mkTk [] None) []) as Hinv.
  destruct Hinv as [Hsub _]; [split; [apply subperm_nil|simpl; lia]|]. simpl in Hsub.
  fold (tk_run amt k req l) in Hsub.
  unfold top_k, tk_items in *. set (s := tk_run amt k req l) in *.
  assert (Hbpos : Forall (fun x => 0 <= amt x) (tk_base s)).
  { eapply Forall_subperm; [|exact Hpos]. eapply subperm_app_inv_l. exact Hsub. }
  destruct (tk_guard s) as [g|] eqn:Eg.
  - apply guard_bound in Eg. rewrite sum_amt_app. simpl.
    pose proof (sum_amt_nonneg _ amt _ Hbpos). lia.
  - rewrite app_nil_r. rewrite (Hg eq_refl) in Hp.
    assert (Hs' : subperm T (tk_base s ++ rest)).
    { eapply subperm_trans; [exact Hs|]. apply subperm_perm. now apply Permutation_sym. }
    destruct (Nat.lt_ge_cases (length (tk_base s)) k) as [Hlt|Hge].
    + rewrite (Hr Hlt), app_nil_r in Hs'.
      pose proof (subperm_sum _ amt _ _ Hs' Hbpos). lia.
    + assert (Hk : length (tk_base s) = k) by lia.
      destruct (tk_base s) as [|r t] eqn:Eb.
      * simpl in Hk. subst k. destruct T; [|simpl in Hl; lia]. simpl in *. lia.
      * assert (Hroot : forall y, In y (r :: t) -> amt r <= amt y).
        { intros y Hy. apply In_nth_error in Hy. destruct Hy as [j Hj].
          apply (root_min (r :: t) r (Hh Hk) eq_refl j y Hj). }
        assert (sum T <= sum (r :: t)); [|lia].
        apply (threshold_max (r :: t) rest T (amt r)); auto.
        -- inversion Hbpos; auto.
        -- intros x Hx. apply Hle; auto. now left.
        -- lia.
Qed.

End HeapProofs.

(* ================================================================== part 11: funds within the input cap *)

(* C02_sufficient_succeeds: if some group of at most K eligible coins covers the outputs, the
   largest fee target of the loop and one MinRelayTxFee of slack, creation succeeds.
   (ErrOverfullUtxo belongs to the insufficient-funds family: it is what the code answers when the
   wallet has at least K eligible coins and the K kept ones do not suffice.) *)
Theorem sufficient_succeeds st r : areq_wf r -> req_valid st r ->
  usum (elig st r) <= max_amount ->
  fmax_of st r + sum_outs (a_outs r) + min_relay <= max_amount ->
  (exists T, subperm T (elig st r) /\ (length T <= sel_k)%nat /\
             fmax_of st r + sum_outs (a_outs r) + min_relay <= usum T) ->
  exists t st', auto_create st r = Ok (t, st').
Proof.
  intros Hwf Hv Htot Hcap [T [Hs [Hl Hsum]]].
  apply sufficient_topk; auto. intros w Hw.
  apply (top_k_covers utxo u_amt sel_k w (elig st r) T); auto; try lia.
  apply pos_nonneg. apply eligible_pos.
Qed.

(* C02_insufficient_fails: an insufficient-funds (or overfull) answer means that no group of at
   most K eligible coins reaches outputs + largest fee target + MinRelayTxFee *)
Theorem insufficient_fails st r e : areq_wf r ->
  auto_create st r = Err e -> e = EInsufficient \/ e = EOverfull ->
  forall T, subperm T (elig st r) -> (length T <= sel_k)%nat ->
            usum T < fmax_of st r + sum_outs (a_outs r) + min_relay.
Proof.
  intros Hwf H He T Hs Hl.
  destruct (insufficient_topk st r e Hwf H He) as [w [Hw Hlt]].
  destruct (Z_lt_le_dec (usum T) (fmax_of st r + sum_outs (a_outs r) + min_relay)) as [|Hge]; auto.
  exfalso.
  assert (w <= usum (top_k u_amt sel_k w (elig st r))); [|lia].
  apply (top_k_covers utxo u_amt sel_k w (elig st r) T); auto; try lia.
  apply pos_nonneg. apply eligible_pos.
Qed.

Lemma firstn_subperm {A} n (l : list A) : subperm (firstn n l) l.
Proof. exists (skipn n l). rewrite firstn_skipn. apply Permutation_refl. Qed.

(* the check's classification of an insufficient-funds answer never says "beyond the window" for
   the model: class 2 contradicts insufficient_fails *)
Theorem insufficient_class st r e : areq_wf r ->
  auto_create st r = Err e -> e = EInsufficient \/ e = EOverfull -> auto_slack_class st r <> 2.
Proof.
  intros Hwf H He. unfold auto_slack_class.
  fold (req_addrs st r). fold (elig st r).
  destruct (negb (valid_prefix _ _ _ _ _ _ _ _)); [discriminate|].
  destruct (cap_funds (elig st r) <? _) eqn:Hc; [discriminate|]. apply Z.ltb_ge in Hc.
  exfalso. unfold cap_funds in Hc.
  assert (Hlt := insufficient_fails st r e Hwf H He (firstn sel_k (sort_desc u_amt (elig st r)))).
  assert (usum (firstn sel_k (sort_desc u_amt (elig st r))) < fmax_of st r + sum_outs (a_outs r) + min_relay).
  { apply Hlt.
    - eapply subperm_trans; [apply firstn_subperm|]. apply subperm_perm. apply sort_desc_perm.
    - apply firstn_le_length. }
  unfold fmax_of in *. unfold fmax in Hc. lia.
Qed.

(* ================================================================== part 12: what the boolean predicate means *)

(* The check evaluates [auto_tx_check] on the transactions the real wallet returns. This is what an
   empty answer guarantees. *)
Definition tx_spec (st : wstate) (r : areq) (t : otx) : Prop :=
  let ids := map fst (t_ins t) in
  (forall id, In id ids -> exists u, In u (w_utxos st) /\ u_id u = id /\
       is_eligible (req_addrs st r) (w_reserved st) (w_pool st) u) /\
  NoDup ids /\
  (exists reqp change, t_outs t = reqp ++ change /\ Permutation reqp (a_outs r) /\ (length change <= 1)%nat /\
     forall d v, change = [(d, v)] ->
       match a_change r with
       | Some c => d = std_dest c
       | None => exists i u, hd_error ids = Some i /\ find_utxo i (w_utxos st) = Some u /\ d = std_dest (u_sh u)
       end) /\
  (exists ia, in_amounts st (t_ins t) = Some ia /\ sumZ ia = sum_outs (t_outs t) + t_fee t) /\
  a_userfee r <= t_fee t /\
  required_fee (estimate_signed_size (Z.of_nat (length (t_ins t))) (Z.of_nat (length (t_outs t))) (a_payload r)) <= t_fee t /\
  t_fee t <= fee_cap (a_userfee r) (Z.of_nat (length (elig st r))) (Z.of_nat (length (a_outs r))) (a_payload r) /\
  Forall (fun i => snd i = std_seq (a_locktime r)) (t_ins t).

Lemma dest_eqb_eq a b : dest_eqb a b = true <-> a = b.
Proof.
  destruct a as [c1 s1 p1], b as [c2 s2 p2]. unfold dest_eqb. simpl.
  rewrite !andb_true_iff, !Z.eqb_eq. split.
  - intros [[-> ->] ->]. reflexivity.
  - intros H. injection H as -> -> ->. auto.
Qed.

Lemma ov_eqb_eq a b : ov_eqb a b = true <-> a = b.
Proof.
  destruct a as [d1 v1], b as [d2 v2]. unfold ov_eqb. simpl.
  rewrite andb_true_iff, dest_eqb_eq, Z.eqb_eq. split.
  - intros [-> ->]. reflexivity.
  - intros H. injection H as -> ->. auto.
Qed.

Lemma remove_one_perm x : forall l l', remove_one x l = Some l' -> Permutation l (x :: l').
Proof.
  induction l as [|y t IH]; intros l' H; simpl in H; [discriminate|].
  destruct (ov_eqb x y) eqn:E.
  - apply ov_eqb_eq in E. subst y. injection H as <-. apply Permutation_refl.
  - destruct (remove_one x t) as [t'|]; [|discriminate]. injection H as <-.
    eapply perm_trans; [apply perm_skip, (IH t' eq_refl)|]. apply perm_swap.
Qed.

Lemma mset_eqb_perm : forall a b, mset_eqb a b = true -> Permutation a b.
Proof.
  induction a as [|x t IH]; intros b H; simpl in H.
  - destruct b; [constructor|discriminate].
  - destruct (remove_one x b) as [b'|] eqn:E; [|discriminate].
    apply remove_one_perm in E. apply IH in H.
    eapply perm_trans; [apply perm_skip, H|]. now apply Permutation_sym.
Qed.

Lemma nodup_b_NoDup l : nodup_b l = true -> NoDup l.
Proof.
  induction l as [|x t IH]; simpl; intros H; [constructor|].
  apply andb_true_iff in H. destruct H as [H1 H2]. apply negb_true_iff, memZ_false in H1.
  constructor; auto.
Qed.

Lemma if_nil_true (b : bool) (n : Z) : (if b then [] else [n]) = [] -> b = true.
Proof. destruct b; [reflexivity|discriminate]. Qed.

Lemma find_utxo_some id l u : find_utxo id l = Some u -> In u l /\ u_id u = id.
Proof.
  induction l as [|x t IH]; simpl; [discriminate|].
  destruct (u_id x =? id) eqn:E.
  - intros H. injection H as <-. apply Z.eqb_eq in E. auto.
  - intros H. apply IH in H. tauto.
Qed.

Theorem check_sound st r t : auto_tx_check st r t = [] -> tx_spec st r t.
Proof.
  unfold auto_tx_check. fold (req_addrs st r). fold (elig st r).
  intros H. repeat (apply app_eq_nil in H; destruct H as [? H]).
  rename H0 into C1, H1 into C2, H2 into C3, H3 into C4, H4 into C5, H5 into C6, H6 into C7, H7 into C8, H into C9.
  apply if_nil_true in C1, C2, C3, C6, C7, C8, C9.
  unfold tx_spec. cbv zeta. split; [|split; [|split; [|split; [|split; [|split; [|split]]]]]].
  - intros id Hid. rewrite forallb_forall in C1. specialize (C1 id Hid). apply memZ_In in C1.
    apply in_map_iff in C1. destruct C1 as [u [Hu Hin]]. apply eligible_spec in Hin.
    exists u. tauto.
  - now apply nodup_b_NoDup.
  - apply andb_true_iff in C3. destruct C3 as [Hm Hl]. apply Nat.leb_le in Hl.
    exists (firstn (length (a_outs r)) (t_outs t)), (skipn (length (a_outs r)) (t_outs t)).
    split; [now rewrite firstn_skipn|]. split; [now apply mset_eqb_perm|]. split; auto.
    intros d v Hch. rewrite Hch in C4.
    destruct (a_change r) as [c|].
    + destruct (dest_eqb d (std_dest c)) eqn:E; [now apply dest_eqb_eq in E|discriminate].
    + destruct (map fst (t_ins t)) as [|i rest] eqn:Eids; [discriminate|].
      destruct (find_utxo i (w_utxos st)) as [u|] eqn:Ef; [|discriminate].
      destruct (dest_eqb d (std_dest (u_sh u))) eqn:E; [|discriminate].
      apply dest_eqb_eq in E. exists i, u. auto.
  - destruct (in_amounts st (t_ins t)) as [ia|]; [|discriminate].
    exists ia. split; auto. apply if_nil_true in C5. now apply Z.eqb_eq in C5.
  - now apply Z.leb_le.
  - now apply Z.leb_le.
  - now apply Z.leb_le.
  - rewrite forallb_forall in C9. rewrite Forall_forall. intros i Hi. apply Z.eqb_eq. now apply C9.
Qed.

(* ... and the model's own transactions pass it: sample instance (the general statement follows from
   the theorems of part 5; it is exercised on every run, where the model's and the wallet's
   transactions agree and the wallet's pass the predicate) *)
