(* Tx/Build.v — transaction construction of masswallet (definitions only).

   Go sources modelled:
     masswallet/common.go   autoConstructTxInAndChangeTxOut (outer fee loop, inner dust-change loop),
                            addTxIn, prepareFromAddresses, amountToTxOut
     masswallet/tx.go       findEligibleUtxos, EstimateTxFee / EstimateStakingTxFee / EstimateBindingTxFee
                            (they differ only in how the requested outputs are built), constructTxIn,
                            constructTxOut, EstimateManualTxFee
     masswallet/wallet.go   AutoCreateRawTransaction, CreateStakingTransaction, CreateBindingTransaction,
                            CreateRawTransaction, MarkUsedUTXO / UTXOUsed (reservation cache, expiry not modelled)

   Also here: the property's own predicates on an observed transaction ([auto_tx_check],
   [manual_tx_check]); the check evaluates them on the transactions the real wallet returns. *)
From Coq Require Import List ZArith Bool Arith.
Import ListNotations.
Open Scope Z_scope.
Require Import MW.Gen.Consts MW.Tx.Select MW.Tx.Fee.

(* ------------------------------------------------------------------ vocabulary *)

(* where an output pays: class 0 = standard P2WSH to script hash [d_sh]; 1 = staking to [d_sh] with
   frozen period [d_par]; 2 = binding with holder [d_sh] and target id [d_par]. *)
Record dest := mkD { d_class : Z; d_sh : Z; d_par : Z }.
Definition dest_eqb (a b : dest) : bool :=
  (d_class a =? d_class b) && (d_sh a =? d_sh b) && (d_par a =? d_par b).
Definition std_dest (sh : Z) : dest := mkD 0 sh 0.

(* a transaction as observed: inputs (outpoint id, sequence), outputs (destination, value) in
   order, and the fee the wallet reports with it *)
Record otx := mkTx { t_ins : list (Z * Z); t_outs : list (dest * Z); t_fee : Z }.

(* wallet state as far as creation reads it: rows of the current wallet's unspent bucket (in
   iteration order), the script hashes of its addresses, the reservation cache, the node mempool's
   spent outpoints *)
Record wstate := mkW {
  w_utxos : list utxo; w_addrs : list Z; w_reserved : list Z; w_pool : list Z }.

Definition max_seq : Z := 2 ^ 64 - 1.                       (* wire.MaxTxInSequenceNum *)
Definition warmup_height : Z := 1398801.                    (* consensus.MASSIP0002WarmUpHeight *)
Definition binding_locked : Z := 2 ^ 32 - 2.                (* consensus.MASSIP0002BindingLockedPeriod *)

(* sequence given to an input by addTxIn / constructTxIn. [height] is the height of the block of
   the previous transaction, or synced height + 1 for a pending one (prevTxHeight). *)
Definition seq_of (locktime class frozen height : Z) : Z :=
  let base := if locktime =? 0 then max_seq else max_seq - 1 in
  if class =? 1 then frozen + 1
  else if (class =? 2) && (warmup_height <=? height) then binding_locked
  else base.

Definition std_seq (locktime : Z) : Z := if locktime =? 0 then max_seq else max_seq - 1.

(* ------------------------------------------------------------------ automatic selection *)

(* findEligibleUtxos(amount, addrs) on the already filtered candidate rows: selection, its sum,
   and the "overfull" flag  (len(items) == K && len(items) == len(selections)). *)
Definition find_eligible (want : Z) (cands : list utxo) : outcome (list utxo * Z * bool) :=
  if want =? 0 then Err EInvalid
  else
    let items := top_k u_amt sel_k want cands in
    match opt_outputs u_amt max_amount want items with
    | None => Err EOther
    | Some sel =>
      Ok (sel, sum_amt u_amt sel,
          (length items =? sel_k)%nat && (length items =? length sel)%nat)
    end.

(* inner loop: find coins for want(+adj); a change below the relay minimum is not allowed, in that
   case retry asking for MinRelayTxFee more. Returns (selection, change amount or None). *)
Fixpoint inner (fuel : nat) (cands : list utxo) (out target adj : Z) (change_ok : bool)
  : outcome (list utxo * option Z) :=
  match fuel with
  | O => Err EOutOfFuel
  | S f =>
    let want := target + out in
    if max_amount <? want then Err EOther
    else
      let want_adj := want + adj in
      if max_amount <? want_adj then Err EOther
      else
        match find_eligible want_adj cands with
        | Err e => Err e
        | Panic => Panic
        | Ok (sel, found, overfull) =>
          if found <? want_adj then (if overfull then Err EOverfull else Err EInsufficient)
          else
            let change := found - want in
            if change =? 0 then Ok (sel, None)
            else if change <? min_relay then inner f cands out target min_relay change_ok
            else if change_ok then Ok (sel, Some change)
            else Err EInvalid       (* amountToTxOut(changeAddr) fails to decode the address *)
        end
  end.

Definition inner_fuel : nat := 3.

(* outer loop: the fee is fixed once the target covers the relay minimum of the estimated size *)
Fixpoint outer (fuel : nat) (cands : list utxo) (out nout payload target : Z) (change_ok : bool)
  : outcome (list utxo * option Z * Z) :=
  match fuel with
  | O => Err EOutOfFuel
  | S f =>
    match inner inner_fuel cands out target 0 change_ok with
    | Err e => Err e
    | Panic => Panic
    | Ok (sel, ch) =>
      let nout' := nout + match ch with Some _ => 1 | None => 0 end in
      let size := estimate_signed_size (Z.of_nat (length sel)) nout' payload in
      let req := required_fee size in
      if req <=? target then Ok (sel, ch, target)
      else outer f cands out nout payload req change_ok
    end
  end.

Definition outer_fuel : nat := 2 * (sel_k + 3).

(* a request for AutoCreateRawTransaction / CreateStakingTransaction / CreateBindingTransaction *)
Record areq := mkA {
  a_outs : list (dest * Z);      (* requested outputs (the Go map / slice), amounts *)
  a_outs_ok : bool;              (* every requested address decodes to the expected kind *)
  a_userfee : Z;
  a_locktime : Z;
  a_from : option Z;             (* sender address (script hash id); Some 0 = not an address of the wallet *)
  a_change : option Z;           (* requested change address (script hash id) *)
  a_change_ok : bool;            (* the requested change address decodes *)
  a_payload : Z }.               (* len(payload) *)

Definition sum_outs (l : list (dest * Z)) : Z := fold_right (fun p s => snd p + s) 0 l.

Definition init_target (userfee : Z) : Z := if userfee =? 0 then min_relay else userfee.

(* prepareFromAddresses *)
Definition from_addrs (st : wstate) (from : option Z) : outcome (list Z) :=
  match from with
  | Some f => if memZ f (w_addrs st) then Ok [f] else Err EInvalid
  | None => match w_addrs st with [] => Err EInvalid | _ => Ok (w_addrs st) end
  end.

Definition change_dest (r : areq) (sel : list utxo) : dest :=
  match a_change r with
  | Some c => std_dest c
  | None => match sel with u :: _ => std_dest (u_sh u) | [] => std_dest 0 end
  end.

Definition build_tx (r : areq) (sel : list utxo) (ch : option Z) (fee : Z) : otx :=
  mkTx (map (fun u => (u_id u, std_seq (a_locktime r))) sel)
       (a_outs r ++ match ch with Some c => [(change_dest r sel, c)] | None => [] end)
       fee.

Definition auto_select (fuel : nat) (st : wstate) (r : areq) : outcome (list utxo * option Z * Z) :=
  match from_addrs st (a_from r) with
  | Err e => Err e
  | Panic => Panic
  | Ok addrs =>
    if negb (a_outs_ok r) || existsb (fun p => snd p =? 0) (a_outs r) then Err EInvalid
    else
      let out := sum_outs (a_outs r) in
      if max_amount <? out then Err EInvalid
      else
        let cands := eligible addrs (w_reserved st) (w_pool st) (w_utxos st) in
        let change_ok := match a_change r with Some _ => a_change_ok r | None => true end in
        outer fuel cands out (Z.of_nat (length (a_outs r))) (a_payload r)
              (init_target (a_userfee r)) change_ok
  end.

(* the whole call: transaction + state after MarkUsedUTXO *)
Definition auto_create_fuel (fuel : nat) (st : wstate) (r : areq) : outcome (otx * wstate) :=
  match auto_select fuel st r with
  | Err e => Err e
  | Panic => Panic
  | Ok (sel, ch, fee) =>
    Ok (build_tx r sel ch fee,
        mkW (w_utxos st) (w_addrs st) (w_reserved st ++ map u_id sel) (w_pool st))
  end.
Definition auto_create := auto_create_fuel outer_fuel.

(* consecutive calls on one wallet (no block in between) *)
Fixpoint auto_run (st : wstate) (rs : list areq) : list (outcome otx) :=
  match rs with
  | [] => []
  | r :: rest =>
    match auto_create st r with
    | Ok (t, st') => Ok t :: auto_run st' rest
    | Err e => Err e :: auto_run st rest
    | Panic => Panic :: auto_run st rest
    end
  end.

(* ------------------------------------------------------------------ explicit inputs *)

(* What the wallet finds for an explicit input (existsMsgTx, then existsUnminedTx):
   MBadTxid: the txid string does not parse; MUnknown: no credit of that outpoint and no pending
   transaction of that hash; MVoutOOR: a pending transaction of that hash with fewer outputs;
   MOut: an output, mined (a credit record of some wallet in this database, spent or not) or
   pending, with what its script says. *)
Record kout := mkK {
  k_id : Z; k_amt : Z; k_sh : Z; k_class : Z; k_frozen : Z; k_height : Z;
  k_mined : bool;      (* found through a credit record (else only in the pending set) *)
  k_parse : bool;      (* ParsePkScript succeeds *)
  k_owned : bool }.    (* the script's standard address is an address of the current wallet *)
Inductive minput := MBadTxid | MUnknown | MVoutOOR | MOut (k : kout).

Record mreq := mkM {
  m_ins : list minput;
  m_amounts : list (Z * Z);      (* recipient script hash id (distinct), amount *)
  m_amounts_ok : bool;           (* every recipient address decodes *)
  m_locktime : Z;
  m_change : option Z;
  m_change_ok : bool;
  m_subfee : list Z }.           (* recipients bearing the fee (distinct) *)

(* constructTxIn: (input id, sequence) list, owners, total value. [dupcheck] = the `seen` set of
   outpoints (repair 3588e0f); false gives the code as first found. Every failure here is in the
   class EInvalid (ErrShaHashFromStr, ErrInvalidParameter, ErrInvalidIndex, ErrNoAddressInWallet,
   ErrInvalidAmount), so a repeated unknown / unparsable input needs no identity in the model. *)
Fixpoint construct_tx_in (dupcheck : bool) (locktime : Z) (ins : list minput) (seen : list Z)
    (acc : list (Z * Z)) (senders : list Z) (total : Z)
  : outcome (list (Z * Z) * list Z * Z) :=
  match ins with
  | [] => Ok (acc, senders, total)
  | MBadTxid :: _ => Err EInvalid
  | MUnknown :: _ => Err EInvalid
  | MVoutOOR :: _ => Err EInvalid
  | MOut k :: rest =>
    if dupcheck && memZ (k_id k) seen then Err EInvalid
    else if negb (k_parse k) then Err EInvalid
    else if negb (k_owned k) then Err EInvalid
    else
      let s := seq_of locktime (k_class k) (k_frozen k) (k_height k) in
      let total' := total + k_amt k in
      if max_amount <? total' then Err EInvalid
      else construct_tx_in dupcheck locktime rest (k_id k :: seen) (acc ++ [(k_id k, s)]) (senders ++ [k_sh k]) total'
  end.

(* EstimateManualTxFee: estimateSignedSize looks every input up through existsMsgTx only (mined) *)
Definition manual_fee (ins : list minput) (nout : Z) : outcome Z :=
  if forallb (fun i => match i with MOut k => k_mined k | _ => false end) ins
  then Ok (required_fee (estimate_signed_size (Z.of_nat (length ins)) nout 0))
  else Err EOther.

Definition create_raw_gen (dupcheck : bool) (r : mreq) : outcome (otx * list Z) :=
  match construct_tx_in dupcheck (m_locktime r) (m_ins r) [] [] [] 0 with
  | Err e => Err e
  | Panic => Panic
  | Ok (tins, senders, total_in) =>
    match senders with
    | [] => Err EInvalid                      (* len(senders) == 0 (repair c619eb4) *)
    | s0 :: _ =>
      let caddr := match m_change r with Some c => c | None => s0 end in
      let caddr_ok := match m_change r with Some _ => m_change_ok r | None => true end in
      let n := Z.of_nat (length (m_amounts r)) in
      match manual_fee (m_ins r) n with
      | Err e => Err e
      | Panic => Panic
      | Ok fee0 =>
        match maybe_subtract_fee (m_amounts r) (m_subfee r) fee0 with
        | Err e => Err e
        | Panic => Panic
        | Ok (na0, tot0) =>
          if total_in <? tot0 then Err EInsufficient
          else
            let finish (na : list (Z * Z)) (change : Z) : outcome (otx * list Z) :=
              if negb (m_amounts_ok r) then Err EInvalid
              else if negb (change =? 0) && negb caddr_ok then Err EInvalid
              else
                let outs := map (fun p => (std_dest (fst p), snd p)) na
                            ++ (if change =? 0 then [] else [(std_dest caddr, change)]) in
                if existsb (fun o => is_dust std_pk_len (snd o)) outs then Err EDust
                else
                  let total_out := sum_outs outs in
                  if max_amount <? total_out then Err EOther
                  else Ok (mkTx tins outs (total_in - total_out), map fst tins) in
            if total_in - tot0 =? 0 then finish na0 0
            else
              match manual_fee (m_ins r) (n + 1) with
              | Err e => Err e
              | Panic => Panic
              | Ok fee1 =>
                match maybe_subtract_fee (m_amounts r) (m_subfee r) fee1 with
                | Err e => Err e
                | Panic => Panic
                | Ok (na1, tot1) =>
                  if total_in <=? tot1 then Err EInsufficient
                  else finish na1 (total_in - tot1)
                end
              end
        end
      end
    end
  end.

Definition create_raw_sel : mreq -> outcome (otx * list Z) := create_raw_gen true.
(* the code before repair 3588e0f: no duplicate check *)
Definition create_raw_sel_unfixed : mreq -> outcome (otx * list Z) := create_raw_gen false.

Definition create_raw (st : wstate) (r : mreq) : outcome (otx * wstate) :=
  match create_raw_sel r with
  | Err e => Err e
  | Panic => Panic
  | Ok (t, ids) => Ok (t, mkW (w_utxos st) (w_addrs st) (w_reserved st ++ ids) (w_pool st))
  end.

(* consecutive calls of either kind on one wallet (no block in between, cache not yet expired) *)
Inductive creq := RAuto (r : areq) | RManual (r : mreq).
Definition create (st : wstate) (c : creq) : outcome (otx * wstate) :=
  match c with RAuto r => auto_create st r | RManual r => create_raw st r end.
Fixpoint run (st : wstate) (rs : list creq) : list (outcome otx) :=
  match rs with
  | [] => []
  | c :: rest =>
    match create st c with
    | Ok (t, st') => Ok t :: run st' rest
    | Err e => Err e :: run st rest
    | Panic => Panic :: run st rest
    end
  end.

(* ------------------------------------------------------------------ the property's predicates *)

Fixpoint find_utxo (id : Z) (l : list utxo) : option utxo :=
  match l with
  | [] => None
  | u :: t => if u_id u =? id then Some u else find_utxo id t
  end.

Fixpoint nodup_b (l : list Z) : bool :=
  match l with [] => true | x :: t => negb (memZ x t) && nodup_b t end.

(* multiset equality of two (dest, value) lists *)
Definition ov_eqb (a b : dest * Z) : bool := dest_eqb (fst a) (fst b) && (snd a =? snd b).
Fixpoint remove_one (x : dest * Z) (l : list (dest * Z)) : option (list (dest * Z)) :=
  match l with
  | [] => None
  | y :: t => if ov_eqb x y then Some t
              else match remove_one x t with Some t' => Some (y :: t') | None => None end
  end.
Fixpoint mset_eqb (a b : list (dest * Z)) : bool :=
  match a with
  | [] => match b with [] => true | _ => false end
  | x :: t => match remove_one x b with Some b' => mset_eqb t b' | None => false end
  end.

Definition in_amounts (st : wstate) (ins : list (Z * Z)) : option (list Z) :=
  fold_right (fun i acc => match acc, find_utxo (fst i) (w_utxos st) with
                           | Some l, Some u => Some (u_amt u :: l)
                           | _, _ => None end) (Some []) ins.

Definition sumZ (l : list Z) : Z := fold_right Z.add 0 l.

(* the largest estimated size a candidate of the fee loop can have when [nel] coins are eligible:
   at most min(nel, K) inputs (Proofs.find_eligible_length), the requested outputs and a change *)
Definition size_cap (nel nout payload : Z) : Z :=
  estimate_signed_size (Z.min nel (Z.of_nat sel_k)) (nout + 1) payload.

(* upper bound of the fee: what the user offered, or (user fee 0) the relay minimum, or the relay
   minimum of a standard-size transaction — as long as every candidate is of standard size; beyond
   that (K inputs, very many outputs, a large payload) the relay minimum of the largest candidate. *)
Definition fee_cap (userfee nel nout payload : Z) : Z :=
  Z.max (init_target userfee) (required_fee (Z.max max_standard_tx_size (size_cap nel nout payload))).

(* Clause numbers of [auto_tx_check] (returned when violated):
   1 an input is not an eligible coin of the wallet (own, sender address, unspent, mature, standard,
     not pending-spent, not reserved)          2 an output is spent twice
   3 the outputs are not the requested ones plus at most one change output
   4 the change does not go to the requested change address / the first input's address
   5 inputs - outputs <> reported fee          6 fee < user fee
   7 fee < relay minimum of the signed size    8 fee above the allowed ceiling
   9 a sequence number differs from the lock-time rule
   (a change below the relay minimum is not forbidden by the property's text: it is a fact about
   the model — Proofs.outputs_exact — and shows up as a model/implementation difference) *)
Definition auto_tx_check (st : wstate) (r : areq) (t : otx) : list Z :=
  let addrs := match a_from r with Some f => [f] | None => w_addrs st end in
  let el := eligible addrs (w_reserved st) (w_pool st) (w_utxos st) in
  let ids := map fst (t_ins t) in
  let nreq := length (a_outs r) in
  let req_part := firstn nreq (t_outs t) in
  let extra := skipn nreq (t_outs t) in
  let nin := Z.of_nat (length (t_ins t)) in
  let nout := Z.of_nat (length (t_outs t)) in
  (if forallb (fun id => memZ id (map u_id el)) ids then [] else [1]) ++
  (if nodup_b ids then [] else [2]) ++
  (if mset_eqb req_part (a_outs r) && (length extra <=? 1)%nat then [] else [3]) ++
  (match extra with
   | [(d, _)] =>
     let want := match a_change r with
                 | Some c => Some (std_dest c)
                 | None => match ids with
                           | i :: _ => match find_utxo i (w_utxos st) with
                                       | Some u => Some (std_dest (u_sh u)) | None => None end
                           | [] => None end
                 end in
     match want with Some w => if dest_eqb d w then [] else [4] | None => [4] end
   | _ => []
   end) ++
  (match in_amounts st (t_ins t) with
   | Some ia => if sumZ ia =? sum_outs (t_outs t) + t_fee t then [] else [5]
   | None => [5]
   end) ++
  (if a_userfee r <=? t_fee t then [] else [6]) ++
  (if required_fee (estimate_signed_size nin nout (a_payload r)) <=? t_fee t then [] else [7]) ++
  (if t_fee t <=? fee_cap (a_userfee r) (Z.of_nat (length el)) (Z.of_nat nreq) (a_payload r) then [] else [8]) ++
  (if forallb (fun i => snd i =? std_seq (a_locktime r)) (t_ins t) then [] else [9]).

(* Manual creation. Clause numbers:
   1 an input is not an output of the current wallet   2 an output is spent twice
   3 outputs are not the requested ones (each bearer reduced by ceil(fee'/n)) plus at most one change
   4 change address rule   5 inputs - outputs <> reported fee (inputs counted once each)
   7 fee < relay minimum of the signed size   8 fee more than n-1 above that minimum + 63 bytes' worth
   9 sequence rule *)
Definition manual_tx_check (r : mreq) (t : otx) : list Z :=
  let kouts := flat_map (fun i => match i with MOut k => [k] | _ => [] end) (m_ins r) in
  let ids := map fst (t_ins t) in
  let find_k (id : Z) := find (fun k => k_id k =? id) kouts in
  let nreq := length (m_amounts r) in
  let req_part := firstn nreq (t_outs t) in
  let extra := skipn nreq (t_outs t) in
  let nsel := Z.of_nat (length (m_subfee r)) in
  let nin := Z.of_nat (length (t_ins t)) in
  let nout := Z.of_nat (length (t_outs t)) in
  let req := required_fee (estimate_signed_size nin nout 0) in
  let each := if nsel =? 0 then 0 else (t_fee t + nsel - 1) / nsel in
  let expect := map (fun p => (std_dest (fst p), if memZ (fst p) (m_subfee r) then snd p - each else snd p))
                    (m_amounts r) in
  (if forallb (fun id => match find_k id with Some k => k_owned k | None => false end) ids then [] else [1]) ++
  (if nodup_b ids then [] else [2]) ++
  (if mset_eqb req_part expect && (length extra <=? 1)%nat then [] else [3]) ++
  (match extra with
   | [(d, _)] =>
     let want := match m_change r with
                 | Some c => Some (std_dest c)
                 | None => match ids with
                           | i :: _ => match find_k i with Some k => Some (std_dest (k_sh k)) | None => None end
                           | [] => None end
                 end in
     match want with Some w => if dest_eqb d w then [] else [4] | None => [4] end
   | _ => []
   end) ++
  (let distinct := fold_right (fun id acc => if memZ id acc then acc else id :: acc) [] ids in
   let ia := map (fun id => match find_k id with Some k => k_amt k | None => 0 end) distinct in
   if sumZ ia =? sum_outs (t_outs t) + t_fee t then [] else [5]) ++
  (if req <=? t_fee t then [] else [7]) ++
  (if t_fee t <=? req + Z.max 0 (nsel - 1) then [] else [8]) ++
  (if forallb (fun i => match find_k (fst i) with
                        | Some k => snd i =? seq_of (m_locktime r) (k_class k) (k_frozen k) (k_height k)
                        | None => false end) (t_ins t) then [] else [9]).

(* ------------------------------------------------------------------ "funds suffice", decided *)

(* Is there a transaction the property accepts? Take the n largest eligible coins for some
   n <= K: they must cover the outputs plus a fee that satisfies the fee clauses for n inputs and
   no change (the user's fee and the relay minimum of that size); the surplus can go to the fee. *)
Fixpoint valid_prefix (out uf nout payload : Z) (sorted : list utxo) (n acc : Z) (k : nat) : bool :=
  match k, sorted with
  | S k', u :: rest =>
    let acc' := acc + u_amt u in
    let n' := n + 1 in
    (out + Z.max uf (required_fee (estimate_signed_size n' nout payload)) <=? acc')
    || valid_prefix out uf nout payload rest n' acc' k'
  | _, _ => false
  end.

(* the funds within the input cap: the K largest eligible coins *)
Definition cap_funds (el : list utxo) : Z := sum_amt u_amt (firstn sel_k (sort_desc u_amt el)).

(* the largest fee target the loop can reach *)
Definition fmax (userfee nel nout payload : Z) : Z :=
  Z.max (init_target userfee) (required_fee (size_cap nel nout payload)).

(* classification of a reported insufficient-funds error of automatic creation:
   0 no acceptable transaction exists (funds do not suffice);
   1 one exists, and the funds within the cap are less than outputs + largest fee target +
     MinRelayTxFee: the window left open by the dust-change adjustment (Proofs.sufficient_succeeds);
   2 one exists and the funds are beyond that window: creation must have succeeded. *)
Definition auto_slack_class (st : wstate) (r : areq) : Z :=
  let addrs := match a_from r with Some f => [f] | None => w_addrs st end in
  let el := eligible addrs (w_reserved st) (w_pool st) (w_utxos st) in
  let out := sum_outs (a_outs r) in
  let nout := Z.of_nat (length (a_outs r)) in
  if negb (valid_prefix out (a_userfee r) nout (a_payload r) (sort_desc u_amt el) 0 0 sel_k) then 0
  else if cap_funds el <? out + fmax (a_userfee r) (Z.of_nat (length el)) nout (a_payload r) + min_relay then 1
  else 2.

(* the same for explicit inputs (all of them acceptable): 0 the inputs do not cover outputs + fee
   without change; 1 they do, and the surplus is at most the extra fee of a change output;
   2 the surplus is larger: creation must not report insufficient funds. *)
Definition manual_slack_class (r : mreq) : Z :=
  let kouts := flat_map (fun i => match i with MOut k => [k] | _ => [] end) (m_ins r) in
  let total_in := fold_right (fun k s => k_amt k + s) 0 kouts in
  let n := Z.of_nat (length (m_amounts r)) in
  let nin := Z.of_nat (length (m_ins r)) in
  match maybe_subtract_fee (m_amounts r) (m_subfee r) (required_fee (estimate_signed_size nin n 0)),
        maybe_subtract_fee (m_amounts r) (m_subfee r) (required_fee (estimate_signed_size nin (n + 1) 0)) with
  | Ok (_, tot0), Ok (_, tot1) =>
    if total_in <? tot0 then 0 else if total_in <=? tot1 then 1 else 2
  | Ok (_, tot0), _ => if total_in <? tot0 then 0 else 1
  | _, _ => 0
  end.
