(* Tx/Fee.v — size estimate, relay fee, dust, fee subtraction (definitions only).

   Go sources modelled:
     masswallet/tx.go      estimateSignedSize
     mass-core blockchain/policy.go   CalcMinRequiredTxRelayFee, isDust
     masswallet/common.go  maybeSubtractFeeFromAmounts *)
From Coq Require Import List ZArith Bool.
Import ListNotations.
Open Scope Z_scope.
Require Import MW.Gen.Consts MW.Tx.Select.

(* massutil.MinRelayTxFee() / massutil.MaxAmount(): from the constants the code is compiled with *)
Definition min_relay : Z := MinRelayTxFee.
Definition max_amount : Z := MaxMass * MaxwellPerMass.

(* estimateSignedSize: per input  len(redeemScript) + 73*nrequired + 8 + 32 + 4  where the wallet's
   redeem script is the 1-of-1 multisig  OP_1 <33-byte key> OP_1 OP_CHECKMULTISIG  (37 bytes),
   plus 63 per output, plus 12 (lock time 8, version 4).  37 + 73 + 44 = 154 = Select.input_size. *)
Definition redeem_script_len : Z := 37.
Definition sig_len : Z := 73.
Definition per_input : Z := redeem_script_len + sig_len * 1 + 8 + 32 + 4.
Definition per_output : Z := 63.
Definition tx_overhead : Z := 12.
Definition estimate_signed_size (nin nout payload : Z) : Z :=
  per_input * nin + per_output * nout + tx_overhead + payload.

(* CalcMinRequiredTxRelayFee(size, minRelay): minRelay*size/1000, never zero when minRelay is not,
   capped by MaxAmount (128-bit arithmetic: no overflow). *)
Definition required_fee (size : Z) : Z :=
  let r := min_relay * size / 1000 in
  if (r =? 0) && negb (min_relay =? 0) then min_relay
  else if max_amount <? r then max_amount else r.

(* isDust for an output whose pkScript has [pklen] bytes:
   value*1000 / (3*(8 + pklen + 154)) < minRelay.   (OP_RETURN scripts are never built here.) *)
Definition is_dust (pklen value : Z) : bool :=
  value * 1000 / (3 * (8 + pklen + 154)) <? min_relay.
Definition std_pk_len : Z := 34.   (* OP_0 <32-byte script hash> *)

(* Go int64 wrap-around of a product *)
Definition wrap64 (z : Z) : Z := (z + 2 ^ 63) mod 2 ^ 64 - 2 ^ 63.

Inductive err :=
| EInsufficient     (* ErrInsufficientFunds / ErrNotEnoughInputs *)
| EOverfull         (* ErrOverfullUtxo *)
| EInvalid          (* ErrInvalidParameter, ErrInvalidAmount, address/ownership errors, ErrUnknownSubfeefrom *)
| EDust             (* ErrDustAmount / ErrDustChange *)
| EOther            (* arithmetic range errors of massutil/safetype, txmgr.ErrNotFound, ... *)
| EOutOfFuel.       (* model only: excluded by Proofs.C02_terminates *)

Inductive outcome (T : Type) :=
| Ok (t : T)
| Err (e : err)
| Panic.            (* Go run-time panic (index out of range / nil dereference) *)
Arguments Ok {T}.
Arguments Err {T}.
Arguments Panic {T}.

(* maybeSubtractFeeFromAmounts(amounts, selected, fee).
   [amounts] is the Go map as an association list with distinct keys, [selected] the key set.
   Returns the new amounts (same keys, same order) and totalAndFee. Every Amount operation is
   range checked in Go (0 <= v <= MaxAmount); all such failures are EOther, the unknown key is
   EInvalid. Go iterates the maps in random order, so when several failures are possible the one
   reported first varies; they all are in the same class except the unknown-key check, which comes
   first in the code. *)
Definition sum_vals (l : list (Z * Z)) : Z := fold_right (fun p s => snd p + s) 0 l.

Definition maybe_subtract_fee (amounts : list (Z * Z)) (selected : list Z) (fee : Z)
  : outcome (list (Z * Z) * Z) :=
  if negb (forallb (fun a => memZ a (map fst amounts)) selected) then Err EInvalid
  else
    let n := Z.of_nat (length selected) in
    if n =? 0 then
      let total := fee + sum_vals amounts in
      if max_amount <? total then Err EOther else Ok (amounts, total)
    else
      let each := (fee + n - 1) / n in                   (* int64 division of non-negative values *)
      let actual := wrap64 (each * n) in
      if (each <? 0) || (max_amount <? each) then Err EOther
      else if (actual <? 0) || (max_amount <? actual) then Err EOther
      else if existsb (fun p => memZ (fst p) selected && (snd p <? each)) amounts then Err EOther
      else
        let na := map (fun p => if memZ (fst p) selected then (fst p, snd p - each) else p) amounts in
        let total := actual + sum_vals na in
        if max_amount <? total then Err EOther else Ok (na, total).
